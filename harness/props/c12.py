"""C12 — conditional aggregates select exactly the positions meeting every criterion."""
from __future__ import annotations

import json

from .. import core, realcode

OPS = {'==': '=', '!=': '<>', '>': '>', '>=': '>=', '<': '<', '<=': '<='}
NUMS = [5, 2.5, -4, 0, 3, 10, 1]
TEXTS = ['apple', 'APPLE', 'a*', '*an*', '?pple', 'a~*c', 'ab', 'a?', 'b', 'x y', 'a.c', '[a]', 'banana',
         'nan', 'inf', 'Infinity', '1_0', 'e5', '0x1A',        # words float() would take for numbers: they are texts
         '*"', '"*', '?"', 'a"', '"*"', 'mar', 'Mar', 'March', 'jan', 'Sept', 'mon', 'Saturday',       # quotes at the ends of a pattern; month / weekday names are texts
         'a~~b', '50~~', '~~', 'a~?', '~*~~', 'abc~', '~', 'a*~', ' a', 'a ', ' ', 'x1', 'x1*', 'a2b?']   # blanks inside a criterion text are part of the text                    # ~ escapes itself and the wildcards, with or without a wildcard in the text
CELLS = ['a"', '"b"', 'c" d', '"', 'Mar', 'March', 'mar', 'January', 'JAN', 'Mon', 'saturday', 'Sept', 5, 3, 10, 2.5, -4, 0, 'apple', 'Apple', 'banana', 'a*c', 'abc', 'ab', 'a.c', 'axc', '[a]', '', True, False, None, 'NaN', 'nan', 'INF', 'infinity', '1_0', 26, 'a~b', 'a~~b', '50~', '50~~', '~', '~~', 'a?', 'a~?', '*~', '*~~', 'abc~', 'abc', 'ab~', ' a', 'a ', 'a', ' ', '', 'x1', 'x12', 'x1y', 'a2b3']


class _Blank:
    pass


_Blank.__name__ = 'EmptyCell'
BLANK = _Blank()


def col_enc(vs):
    return core.enc([[BLANK if v is None else v] for v in vs])


def fmt(n):
    return repr(n)


def renderings(kind, op, val):
    """-> list of python values that are renderings of the structured criterion"""
    if kind == 'n':
        out = [OPS[op] + fmt(val)] if op != '==' else [val, fmt(val), '=' + fmt(val)]
        if op == '==' and isinstance(val, float) and val == int(val):
            out.append(int(val))
        return out
    return [OPS[op] + val] if op != '==' else [val, '=' + val]


def struct(kind, op, val):
    return '%s %s %s' % (kind, op, core.enc(val))


def excel_lit(v):
    if isinstance(v, str):
        return '"' + v.replace('"', '""') + '"'
    return repr(v)


def crits(rng=None):
    out = []
    for op in OPS:
        for n in NUMS:
            out.append(('n', op, n))
        for t in TEXTS:
            out.append(('t', op, t))
    return out


def run(tier, seed):
    chk = core.Check('C12', tier, seed)
    rng = chk.rng
    chk.rule = ('criteria = (number | text with ? * ~) x six operators, each in all its renderings (plain value, numeric text, "=v", operator-prefixed text, assembled with & '
                'from a cell, held by a cell) x cells (ints, floats, negatives, texts in both cases, texts with regex-special characters, empty text, booleans, blank): '
                'the predicate _criterion returns (both runtime copies) vs the Lean model of the decoding and vs the structured meaning (spec); SUMIFS / COUNTIFS / SUMIF / '
                'AVERAGEIFS formulas with 1-3 (range, criterion) pairs over generated columns, aligned and misaligned: values vs model and spec, AVERAGEIFS = SUMIFS / COUNTIFS '
                'on the real code. distinct = distinct (criterion rendering, cell) / formulas')
    chk.assumptions += ['blank and boolean cells inside criteria ranges, date criteria and texts containing digits (tried as dates by dateutil): compared with the model where it has one, '
                        'not with the spec (the statement does not fix them)',
                        'float(text) of a numeric criterion text is an external (parseNum model, validated in C10/C17)']
    chk.build = core.lean_build(['C12'], tier)
    if not chk.build.driver_ok:
        raise RuntimeError('driver did not build:\n' + chk.build.log[-2000:])
    insts = [('template', realcode.runtime_instance()), ('abstract', realcode.abstract_instance())]
    cases = []
    for name, inst in insts:
        for kind, op, val in crits():
            for rendered in renderings(kind, op, val):
                try:
                    pred = inst._criterion(rendered)
                except Exception as e:  # noqa
                    chk.violation({'why': 'building the predicate of a criterion fails', 'criterion': repr(rendered), 'error': repr(e)[:200], 'stream': 'criterion'})
                    continue
                for cell in CELLS:
                    c = inst.EmptyCell() if cell is None else cell
                    got = core.outcome(lambda: bool(pred(c)))
                    if isinstance(cell, bool) or cell is None:
                        # spec silent: model only
                        req = 'cr %s %s %s' % (core.enc(rendered), struct(kind, op, val), 'B' if cell is None else core.enc(cell))
                        cases.append((req, got, {'criterion': repr(rendered), 'cell': repr(cell), 'copy': name, 'nospec': True}))
                    else:
                        cases.append(('cr %s %s %s' % (core.enc(rendered), struct(kind, op, val), core.enc(cell)), got,
                                      {'criterion': repr(rendered), 'cell': repr(cell), 'copy': name}))
    # cells for which the statement is silent: drop the spec by judging them in a separate stream with canon that maps to spec
    spec_cases = [c for c in cases if not c[2].get('nospec')]
    model_only = [c for c in cases if c[2].get('nospec')]
    chk.judge('criterion', spec_cases, sample_cap=4)
    judge_model_only(chk, 'criterion-blank-bool', model_only)
    end_to_end(chk, tier)
    return chk.finish()


def judge_model_only(chk, stream, cases):
    if not cases:
        return
    resp = core.drive([c[0] for c in cases])
    for (req, got, meta), line in zip(cases, resp):
        model, _, _ = core.split3(line)
        chk.count('stream:' + stream)
        chk.seen((stream, req))
        if model != 'EUnmodelled' and model != got:
            chk.mismatch(stream, dict(meta, request=req, impl=got, model=model))


def end_to_end(chk, tier):
    rng = chk.rng
    n = 12 if tier == 'quick' else 200
    for b in range(n):
        h = rng.randint(3, 8)
        keys1 = [rng.choice([5, 3, 10, 2.5, -4, 0, 7, 3, 5, None, 1]) for _ in range(h)]
        keys2 = [rng.choice(['apple', 'Apple', 'banana', 'abc', 'ab', 'a*c', 'pear', 'nan', 'Inf']) for _ in range(h)]
        keys3 = [rng.choice([1, 2, 'x', 'y', 2.5, '', None, True, False, 0, ' x']) for _ in range(h)]
        tgt = [rng.choice([1, 2, 4, 8, 16, 0.5, 32, -3]) for _ in range(h)]
        values = {}
        for i in range(h):
            values[(0, i)], values[(1, i)], values[(2, i)], values[(3, i)] = keys1[i], keys2[i], keys3[i], tgt[i]
        cols = {'A': keys1, 'B': keys2, 'C': keys3}
        # cells holding criteria (column F) and parts (column G)
        holder = {(5, 0): '>3', (5, 1): 'apple', (5, 2): 5, (5, 3): '<>x', (6, 0): 3, (6, 1): 'b'}
        values.update(holder)
        crit_forms = []
        for kind, op, val in rng.sample(crits(), 40):
            col = 'A' if kind == 'n' else rng.choice(['B', 'C'])
            for rendered in renderings(kind, op, val):
                crit_forms.append((col, kind, op, val, rendered, excel_lit(rendered)))
        # assembled with & from a cell, held by a cell
        crit_forms += [('A', 'n', '>', 3, '>3', '">"&G1'), ('A', 'n', '<=', 3, '<=3', '"<="&G1'), ('B', 't', '!=', 'b', '<>b', '"<>"&G2'),
                       ('A', 'n', '>', 3, '>3', 'F1'), ('B', 't', '==', 'apple', 'apple', 'F2'), ('A', 'n', '==', 5, 5, 'F3'), ('C', 't', '!=', 'x', '<>x', 'F4')]
        formulas, reqs = [], []
        R = lambda c: '%s1:%s%d' % (c, c, h)
        for col, kind, op, val, rendered, text in crit_forms:
            rng_enc = col_enc(cols[col])
            tgt_enc = core.enc([[v] for v in tgt])
            st = struct(kind, op, val)
            formulas.append('=SUMIFS(%s,%s,%s)' % (R('D'), R(col), text))
            reqs.append('ci sumifs %s 1 %s %s %s' % (tgt_enc, rng_enc, core.enc(rendered), st))
            formulas.append('=COUNTIFS(%s,%s)' % (R(col), text))
            reqs.append('ci countifs %s 1 %s %s %s' % (tgt_enc, rng_enc, core.enc(rendered), st))
            formulas.append('=SUMIF(%s,%s,%s)' % (R(col), text, R('D')))
            reqs.append('ci sumif %s 1 %s %s %s' % (tgt_enc, rng_enc, core.enc(rendered), st))
        # SUMIF whose target starts elsewhere than the criteria range (other rows, other column, a single first cell, a rectangle)
        off = rng.randint(1, 3)
        tgt2 = [rng.choice([1, 2, 4, 8, 16, 32, 64]) for _ in range(h + off)]
        for i, v in enumerate(tgt2):
            values[(7, i)] = v                       # column H, rows 1..h+off
        for col, kind, op, val, rendered, text in rng.sample(crit_forms, 8):
            shifted = [[v] for v in tgt2[off:off + h]]
            st = struct(kind, op, val)
            for third in ('H%d:H%d' % (off + 1, off + h), 'H%d' % (off + 1)):
                formulas.append('=SUMIF(%s,%s,%s)' % (R(col), text, third))
                reqs.append('ci sumif %s 1 %s %s %s' % (core.enc(shifted), col_enc(cols[col]), core.enc(rendered), st))
        if h >= 3:
            for col, kind, op, val, rendered, text in rng.sample(crit_forms, 4):
                # a target written with both corners but shorter than the criteria range: it takes the shape of the criteria range from its first cell
                formulas.append('=SUMIF(%s,%s,H1:H%d)' % (R(col), text, rng.randint(1, h - 1)))
                reqs.append('ci sumif %s 1 %s %s %s' % (core.enc([[v] for v in tgt2[:h]]), col_enc(cols[col]), core.enc(rendered), struct(kind, op, val)))
        if h >= 4:
            for col, kind, op, val, rendered, text in rng.sample(crit_forms, 6):
                top = rng.randint(2, h - 1)                         # criteria range rows top..h, whole-column target H:H -> H1..H(h-top+1)
                part = cols[col][top - 1:]
                formulas.append('=SUMIF(%s%d:%s%d,%s,H:H)' % (col, top, col, h, text))
                reqs.append('ci sumif %s 1 %s %s %s' % (core.enc([[v] for v in tgt2[:len(part)]]), col_enc(part), core.enc(rendered), struct(kind, op, val)))
        # several pairs
        for _ in range(12):
            pairs = rng.sample(crit_forms, rng.randint(2, 3))
            parts, enc_parts = [], []
            for col, kind, op, val, rendered, text in pairs:
                parts.append('%s,%s' % (R(col), text))
                enc_parts.append('%s %s %s' % (col_enc(cols[col]), core.enc(rendered), struct(kind, op, val)))
            formulas.append('=SUMIFS(%s,%s)' % (R('D'), ','.join(parts)))
            reqs.append('ci sumifs %s %d %s' % (core.enc([[v] for v in tgt]), len(pairs), ' '.join(enc_parts)))
            formulas.append('=COUNTIFS(%s)' % ','.join(parts))
            reqs.append('ci countifs %s %d %s' % (core.enc([[v] for v in tgt]), len(pairs), ' '.join(enc_parts)))
        # misaligned ranges: also behind a pair that selects nothing (every pair is checked, whatever the earlier ones select)
        for fn_text, fn_name in (('=SUMIFS(D1:D%d,B1:B%d,"zzz",A1:A%d,">0")' % (h, h, h + 2), 'sumifs'), ('=COUNTIFS(B1:B%d,"zzz",A1:A%d,">0")' % (h, h + 2), 'countifs')):
            formulas.append(fn_text)
            reqs.append('ci %s %s 2 %s %s t == %s %s %s n > I0' % (fn_name, core.enc([[v] for v in tgt]), col_enc(keys2), core.enc('zzz'), core.enc('zzz'),
                                                                    col_enc(keys1 + [None, None]), core.enc('>0')))
        formulas.append('=SUMIFS(D1:D%d,A1:A%d,">0")' % (h, h - 1))
        reqs.append('ci sumifs %s 1 %s %s n > I0' % (core.enc([[v] for v in tgt]), col_enc(keys1[:-1]), core.enc('>0')))
        formulas.append('=COUNTIFS(A1:A%d,">0",B1:B%d,"apple")' % (h, h - 1))
        reqs.append('ci countifs %s 2 %s %s n > I0 %s %s t == %s' % (core.enc([[v] for v in tgt]), col_enc(keys1), core.enc('>0'),
                                                                   col_enc(keys2[:-1]), core.enc('apple'), core.enc('apple')))
        outs = realcode.eval_formulas(formulas, values)
        # ranges of the same height and different width (row-shaped ranges of 4 and 3 cells): a size error, never a silent alignment
        wide = ['=SUMIFS(A1:D1,A2:C2,">1")', '=COUNTIFS(A1:D1,">0",A2:C2,">1")', '=AVERAGEIFS(A1:D1,A2:C2,">1")', '=SUMIFS(A1:B2,C1:C2,">1")', '=COUNTIFS(A1:B2,">0",C1:C2,">0")']
        wo = realcode.eval_formulas(wide, {(0, 0): 1, (1, 0): 2, (2, 0): 3, (3, 0): 4, (0, 1): 5, (1, 1): 0, (2, 1): 5, (3, 1): 0})
        for f, o in zip(wide, wo):
            chk.count('law:width-mismatch')
            chk.seen(('width', b, f))
            if b == 0 and not o.startswith('E'):
                chk.violation({'why': 'ranges with the same number of rows but different numbers of cells are not reported as an error', 'formula': f, 'impl': o, 'stream': 'misaligned-width'})
        cases = [(r, o, {'formula': f, 'book': b}) for f, r, o in zip(formulas, reqs, outs)]
        chk.judge('e2e', cases, sample_cap=1)
        # AVERAGEIFS = SUMIFS / COUNTIFS on the real code (numeric targets)
        laws = []
        for col, kind, op, val, rendered, text in rng.sample(crit_forms, 10):
            laws += ['=AVERAGEIFS(%s,%s,%s)' % (R('D'), R(col), text), '=SUMIFS(%s,%s,%s)' % (R('D'), R(col), text), '=COUNTIFS(%s,%s)' % (R(col), text)]
        lo = realcode.eval_formulas(laws, values)
        for i in range(0, len(laws), 3):
            a, s, c = lo[i:i + 3]
            chk.count('law:averageifs')
            chk.seen(('avg', b, laws[i]))
            if c.startswith('I') and int(c[1:]) > 0 and not s.startswith('E') and not a.startswith('E'):
                sv, av = core.dec(s), core.dec(a)
                if isinstance(av, (int, float)) and abs(av - sv / int(c[1:])) > 1e-12:
                    chk.violation({'why': 'AVERAGEIFS is not SUMIFS / COUNTIFS over the same selection', 'formula': laws[i], 'average': a, 'sum': s, 'count': c, 'stream': 'avg-law'})
            elif c == 'I0' and a not in (core.enc('#DIV/0!'), core.enc('#DIV0!')):
                chk.violation({'why': 'AVERAGEIFS over an empty selection is not the division error value', 'formula': laws[i], 'average': a, 'stream': 'avg-law'})
        # logical values next to the numbers 1 and 0: COUNTIFS keeps them apart (a numeric criterion does not accept TRUE, a logical one does not accept 1)
        logic = [rng.choice([1, True, 1.0, 0, False, 2, 'x']) for _ in range(h)]
        lvalues = dict(values)
        for i, v in enumerate(logic):
            lvalues[(11, i)] = v                     # column L
        isnum = lambda v: type(v) in (int, float)
        lforms = [('=COUNTIFS(%s,1)' % R('L'), sum(1 for v in logic if isnum(v) and v == 1)), ('=COUNTIFS(%s,0)' % R('L'), sum(1 for v in logic if isnum(v) and v == 0)),
                  ('=COUNTIFS(%s,TRUE)' % R('L'), sum(1 for v in logic if v is True)), ('=COUNTIFS(%s,FALSE)' % R('L'), sum(1 for v in logic if v is False)),
                  ('=COUNTIFS(%s,">0")' % R('L'), sum(1 for v in logic if isnum(v) and v > 0)), ('=COUNTIFS(%s,"<>1")' % R('L'), sum(1 for v in logic if not (isnum(v) and v == 1)))]
        # the same as the second pair of the call (the first pair accepts every position)
        lforms += [(f.replace('=COUNTIFS(', '=COUNTIFS(%s,"<>qq",' % R('D')), w) for f, w in lforms]
        lo2 = realcode.eval_formulas([f for f, _ in lforms], lvalues)
        for (f, want), got in zip(lforms, lo2):
            chk.count('law:logical-vs-number')
            chk.seen(('logic', b, f))
            if got != 'I%d' % want:
                chk.violation({'why': 'COUNTIFS does not keep logical values and the numbers 1 / 0 apart', 'formula': f, 'column': repr(logic), 'impl': got, 'want': want,
                               'stream': 'logical-vs-number'})
        # date cells in the criteria range, the criterion assembled with & from a date cell (or the date cell itself)
        import datetime as _d
        days = [_d.datetime(2021, 2, 20) + _d.timedelta(days=rng.choice([0, 3, 3, 28, 125, 400])) for _ in range(h)]
        pivot = rng.choice(days)
        dvalues = dict(values)
        for i, v in enumerate(days):
            dvalues[(9, i)] = v                      # column J
        dvalues[(10, 0)] = pivot                     # K1
        cmpf = {'>': lambda a, b: a > b, '>=': lambda a, b: a >= b, '<': lambda a, b: a < b, '<=': lambda a, b: a <= b, '<>': lambda a, b: a != b, '=': lambda a, b: a == b}
        dforms, dwant = [], []
        for op, fcmp in cmpf.items():
            sel = [i for i in range(h) if fcmp(days[i], pivot)]
            dforms.append('=COUNTIFS(%s,"%s"&K1)' % (R('J'), op))
            dwant.append('I%d' % len(sel))
            dforms.append('=SUMIFS(%s,%s,"%s"&K1)' % (R('D'), R('J'), op))
            dwant.append(core.enc(sum(tgt[i] for i in sel)) if all(isinstance(tgt[i], int) for i in sel) else None)
        dforms.append('=COUNTIFS(%s,K1)' % R('J'))
        dwant.append('I%d' % sum(1 for x in days if x == pivot))
        do = realcode.eval_formulas(dforms, dvalues)
        for f, got, want in zip(dforms, do, dwant):
            chk.count('law:date-criteria')
            chk.seen(('datecrit', b, f))
            if want is not None and got != want:
                chk.violation({'why': 'a criterion assembled with & from a date cell does not select the dates that compare that way with it', 'formula': f,
                               'dates': [x.isoformat() for x in days], 'K1': pivot.isoformat(), 'impl': got, 'want': want, 'stream': 'date-criteria'})
        # a target range that also holds numbers stored as text: they are neither summed nor counted
        mixed = [rng.choice([1, 2, 4, 8, 16, 32, '20', '7', '100']) for _ in range(h)]
        mvalues = dict(values)
        for i, v in enumerate(mixed):
            mvalues[(8, i)] = v                      # column I
        forms, wants = [], []
        for col, kind, op, val, rendered, text in rng.sample(crit_forms, 12):
            forms.append('=AVERAGEIFS(%s,%s,%s)' % (R('I'), R(col), text))
            forms.append('=COUNTIFS(%s,%s)' % (R(col), text))
            forms.append('=SUMIFS(%s,%s,%s)' % (R('D'), R(col), text))
            forms.append('=SUMIFS(%s,%s,%s)' % (R('I'), R(col), text))
        mo = realcode.eval_formulas(forms, mvalues)
        for i in range(0, len(forms), 4):
            a, c, sd, si = mo[i:i + 4]
            chk.count('law:averageifs-mixed-target')
            chk.seen(('avgmix', b, forms[i]))
            if not c.startswith('I') or sd.startswith('E') or si.startswith('E'):
                continue
            # which positions are selected: SUMIFS over D (all numbers, distinct powers are not needed: use a mask column instead)
            mask_forms = ['=COUNTIFS(%s,%s)' % ('%s%d:%s%d' % (forms[i + 1][10], r + 1, forms[i + 1][10], r + 1), forms[i + 1].split(',', 1)[1][:-1]) for r in range(h)]
            mk = realcode.eval_formulas(mask_forms, mvalues)
            sel = [mixed[r] for r in range(h) if mk[r] == 'I1']
            nums = [v for v in sel if isinstance(v, (int, float))]
            if not nums:
                continue
            want = sum(nums) / len(nums)
            got = core.dec(a) if not a.startswith('E') else None
            if not isinstance(got, (int, float)) or abs(got - want) > 1e-12:
                chk.violation({'why': 'AVERAGEIFS is not the mean of the selected NUMBERS of the target range (numbers stored as text are neither summed nor counted)',
                               'formula': forms[i], 'target': repr(mixed), 'selected': repr(sel), 'impl': a, 'want': repr(want), 'stream': 'avg-mixed-target'})


def replay(path):
    data = json.load(open(path))
    for case in data.get('failing_inputs', [])[:20]:
        print('replay case:', json.dumps(case, ensure_ascii=False, default=str)[:800])
    return 1 if data.get('failing_inputs') else 0
