"""C08 — evaluation is pure and repeatable; all query APIs agree."""
from __future__ import annotations

import copy
import json

from .. import core, realcode, execmodel as em


def order_law_criteria(chk):
    """two formulas whose criteria are equal for Python (1 and TRUE, 0 and FALSE): each cell answers the same whichever is asked first, and get_cells / get_sheet agree"""
    m = realcode.mods()
    Cell = m['Cell']
    rows = [[1, '=COUNTIFS(A1:A6,1)', '=COUNTIFS(A1:A6,TRUE)'], [True, '=COUNTIFS(A1:A6,0)', '=COUNTIFS(A1:A6,FALSE)'], [1.0, '=SUMIF(A1:A6,1,A1:A6)', '=COUNTIFS(A1:A6,"1")'], [0, None, None],
            [False, None, None], ['1', None, None]]
    cls = realcode.load_class(realcode.translate([('S', rows)]))
    cells = [(c, r) for r in range(3) for c in (1, 2)]
    ref = {}
    for t in cells:
        ref[t] = core.outcome(lambda: realcode.executor_for(cls).get_cell(Cell(0, *t)).value)
    import itertools
    for perm in list(itertools.permutations(cells))[::37]:
        ex = realcode.executor_for(cls)
        for t in perm:
            got = core.outcome(lambda: ex.get_cell(Cell(0, *t)).value)
            chk.count('law:criteria-order')
            if got != ref[t]:
                chk.violation({'why': 'the value of a cell depends on which other cell was queried before (criteria that are equal for Python: 1 / TRUE, 0 / FALSE)',
                               'formula': rows[t[1]][t[0]], 'order': [rows[r][c] for c, r in perm], 'impl': got, 'alone': ref[t], 'stream': 'criteria-order'})
                return


def order_law_zoo(chk, rng, rounds):
    """one class with formulas of every function family: each cell answers on a long-lived executor, in any order and when asked again, what it answers
    alone on a fresh executor - no helper of the runtime may keep something from one evaluation that changes another (a rounding mode, a search
    position, a compiled criterion, a decimal context ...); get_cells and get_sheet agree cell by cell"""
    m = realcode.mods()
    Cell = m['Cell']
    data = [[7.2, 'Banana', 10, 1], [2.55, 'a', 20, True], [-7.5, 'an*', 30, 1.0], [1234.5678, 'Hello World', 40, 0], [0.125, 'x', 50, False], [15, 'ana', 60, '1']]
    formulas = ['=ROUND(A1,0)', '=ROUNDUP(A1,0)', '=ROUNDDOWN(A1,0)', '=ROUND(A2,1)', '=ROUNDUP(A2,1)', '=ROUNDDOWN(A2,1)', '=ROUND(A3,0)', '=ROUNDUP(A3,0)',
                '=ROUNDDOWN(A3,0)', '=ROUND(A4,-2)', '=ROUNDUP(A4,2)', '=ROUNDDOWN(A4,2)', '=ROUND(A5,2)', '=ROUNDDOWN(A5,2)', '=ROUNDUP(A5,2)', '=A2%', '=ROUND(A6%,1)',
                '=SEARCH(B2,B1)', '=SEARCH(B2,B1,3)', '=SEARCH(B2,B1,SEARCH(B2,B1)+1)', '=SEARCH(B3,B1)', '=SEARCH(B6,B1,2)', '=SEARCH("o",B4)', '=SEARCH("O",B4,6)',
                '=LEFT(B4,5)', '=RIGHT(B4,5)', '=MID(B4,7,3)', '=CONCATENATE(B1,B5,A1)', '=B1&B2', '=VALUE("12.5")',
                '=MATCH(30,C1:C6,0)', '=MATCH(35,C1:C6,1)', '=XMATCH(35,C1:C6,1)', '=XMATCH(35,C1:C6,-1,2)', '=XMATCH(35,C1:C6,1,2)', '=XMATCH(30,C1:C6,0,-1)',
                '=VLOOKUP(40,C1:D6,2,FALSE)', '=INDEX(C1:D6,2,1)', '=INDEX(B1:B6,MATCH(50,C1:C6,0))',
                '=COUNTIFS(D1:D6,1)', '=COUNTIFS(D1:D6,TRUE)', '=COUNTIFS(D1:D6,0)', '=COUNTIFS(D1:D6,FALSE)', '=SUMIF(D1:D6,1,C1:C6)', '=SUMIF(D1:D6,TRUE,C1:C6)',
                '=SUMIFS(C1:C6,D1:D6,"1")', '=AVERAGEIFS(C1:C6,C1:C6,">25")', '=COUNTIFS(B1:B6,"an*")', '=COUNTIFS(B1:B6,"a")', '=SUMIF(C1:C6,">=30")',
                '=SUM(A1:A6)', '=AVERAGE(C1:C6)', '=MIN(A1:A6)', '=MAX(A1:C6)', '=COUNT(A1:D6)', '=COUNTBLANK(A1:E6)', '=AND(D1:D3)', '=OR(D4:D5)',
                '=DATE(2024,2,30)', '=DAY(DATE(2024,3,0))', '=MONTH(EDATE(DATE(2024,1,31),1))', '=DAY(EOMONTH(DATE(2023,2,1),0))', '=DATEDIF(DATE(2020,1,31),DATE(2024,3,1),"YM")',
                '=DATEDIF(DATE(2020,1,31),DATE(2024,3,1),"D")', '=NETWORKDAYS(DATE(2024,1,1),DATE(2024,1,31))', '=YEAR(DATE(1999,14,1))',
                '=IF(A1>7,"big","small")', '=IFS(A1>8,1,A1>7,2)', '=IFERROR(1/D4,"div")', '=IFERROR(SEARCH("zz",B1),0)', '=IF(D2,1,2)', '=A1>A2', '=B2="A"', '=C1<>D1',
                '=-A1^1' if False else '=-A1+A2*2', '=(A1+A2)%', '=ADDRESS(2,28)', '=COLUMN(C1)']
    rows = [list(r) + [None] * 2 for r in data]
    while len(rows) < len(formulas):
        rows.append([None] * 6)
    for i, f in enumerate(formulas):
        rows[i][5] = f
    try:
        cls = realcode.load_class(realcode.translate([('S', rows)]))
    except Exception as e:  # noqa
        chk.violation({'why': 'a workbook of supported formulas does not translate: %r' % (e,), 'stream': 'zoo-order'})
        return
    cells = [(5, i) for i in range(len(formulas))]
    ref = {t: core.outcome(lambda t=t: realcode.executor_for(cls).get_cell(Cell(0, *t)).value) for t in cells}

    def bad(t, got, how, order):
        chk.violation({'why': 'the value of a cell depends on what was evaluated before on the same executor (' + how + ')', 'formula': formulas[t[1]],
                       'before': [formulas[r] for _, r in order][-6:], 'impl': got, 'alone': ref[t], 'stream': 'zoo-order'})
    for k in range(rounds):
        ex = realcode.executor_for(cls)
        perm = cells[:]
        rng.shuffle(perm)
        if k == 0:
            perm = cells[:]
        elif k == 1:
            perm = cells[::-1]
        perm = perm + perm[:len(perm) // 2]
        for i, t in enumerate(perm):
            got = core.outcome(lambda: ex.get_cell(Cell(0, *t)).value)
            chk.count('law:zoo-order')
            if got != ref[t]:
                return bad(t, got, 'get_cell', perm[:i])
        if k % 2 == 0:
            res = ex.get_cells([Cell(0, *t) for t in perm[:40]])
            for t, cell in zip(perm[:40], res):
                got = core.outcome(lambda: cell.value)
                if got != ref[t] and not ref[t].startswith('E'):
                    return bad(t, got, 'get_cells', perm[:40])
    # pairs: every cell right after every other cell on a fresh executor (a sample of the pairs per run, the rounding family always in full)
    pairs = [(a, b) for a in cells for b in cells if a != b]
    fam = [(a, b) for a, b in pairs if a[1] < 17 and b[1] < 17]
    for a, b in fam + rng.sample(pairs, min(len(pairs), 150 * rounds)):
        ex = realcode.executor_for(cls)
        core.outcome(lambda: ex.get_cell(Cell(0, *a)).value)
        got = core.outcome(lambda: ex.get_cell(Cell(0, *b)).value)
        chk.count('law:zoo-pairs')
        if got != ref[b]:
            return bad(b, got, 'right after one other cell', [a])


def answers(ops, outs):
    """per-query answers keyed by (kind, target) so that schedules can be compared after permutation"""
    res = {}
    for op, o in zip(ops, outs):
        if op[0] == 'get':
            res.setdefault(('get', op[1]), set()).add(o)
        elif op[0] == 'gets':
            vals = o.split(' ')[1:] if o.startswith('V') else [o] * len(op[1])
            if o.startswith('V'):
                # every element equals the single-cell answer for that cell (values are single tokens in this fragment)
                for (t, _), v in zip(op[1], vals):
                    res.setdefault(('get', t), set()).add(v)
        elif op[0] == 'sheet':
            res.setdefault(('sheet', op[1]), set()).add(o)
    return res


def run(tier, seed):
    chk = core.Check('C08', tier, seed)
    rng = chk.rng
    chk.rule = ('query-heavy schedules (1-40 calls of get_cell / get_cells / get_sheet with numeric, A1-style and title addressing, few set_cells) over '
                'generated workbooks; outputs of the real Executor vs the Lean state machine and vs from-scratch evaluation (spec); then for a fixed '
                'override set: a schedule, the same schedule permuted and with every query doubled, each on a fresh executor - per-query answers must '
                'coincide, get_cells elements and get_sheet entries must equal single-cell queries, and _arguments / get_sheets_size() must be unchanged '
                'by queries. distinct = distinct (workbook, schedule)')
    chk.assumptions += ['formula evaluation inside the state-machine model is the C13 fragment evaluator',
                        'cell values in this fragment encode as single tokens (ints, dyadic floats, texts, booleans, blank)']
    chk.build = core.lean_build(['C04', 'C08'], tier)
    if not chk.build.driver_ok:
        raise RuntimeError('driver did not build:\n' + chk.build.log[-2000:])
    nbooks = 100 if tier == 'quick' else 1200
    m = realcode.mods()
    Cell = m['Cell']
    cases = []
    for b in range(nbooks):
        book = em.Book(rng, failing=(b % 3 == 0))
        try:
            cls = realcode.load_class(realcode.translate(book.sheets()))
        except Exception as e:  # noqa
            chk.violation({'why': 'a generated (valid, acyclic) workbook failed to translate: %r' % (e,), 'stream': 'setup', 'titles': list(em.TITLES), 'book': repr(book.cells)[:500]})
            continue
        prefix = book.request_prefix()
        # 1. correspondence on query-heavy histories
        for _ in range(4):
            ops = em.gen_ops(book, rng, rng.randint(1, 40), p_set=0.12)
            outs, ex = em.run_real(cls, ops)
            cases.append((' '.join(prefix + em.ops_request(ops)), ' ; '.join(outs), {'book': b, 'history': repr(ops)[:1500]}))
            for op in ops:
                chk.count('op:' + op[0])
        # 2. laws on the real code
        setup = [op for op in em.gen_ops(book, rng, 4, p_set=1.0)]
        queries = [op for op in em.gen_ops(book, rng, rng.randint(3, 14), p_set=0.0)]
        snap = {}

        def observer(i, op, ex, snap=snap):
            inst = ex.get_executed_class()
            state = (copy.deepcopy(getattr(inst, '_arguments', None)), copy.deepcopy(inst.get_sheets_size()), copy.deepcopy(ex._sheets_size))
            if i == len(setup):         # after the first query (the replay happens inside it)
                snap['ref'] = state
            elif i > len(setup) and state != snap.get('ref'):
                chk.violation({'why': 'a query changed the overrides or the reported sheet sizes', 'after_op': repr(op), 'before': repr(snap.get('ref'))[:300],
                               'after': repr(state)[:300], 'stream': 'purity', 'history': repr(setup + queries)[:1200]})
        if b % 10 == 0:
            # a failing cell asked hundreds of times leaves no trace: afterwards every cell answers as a fresh executor does
            exm = realcode.executor_for(cls)
            every = [(s, c, r) for s in range(book.ns) for r in range(book.h[s]) for c in range(book.w[s])]
            first = {t: core.outcome(lambda t=t: exm.get_cell(Cell(*t)).value) for t in every}
            failing = [t for t, o in first.items() if o.startswith('E')]
            for t in failing[:2]:
                for _ in range(450):
                    core.outcome(lambda t=t: exm.get_cell(Cell(*t)).value)
            if failing:
                chk.count('law:after-many-failures')
                for t in every:
                    again = core.outcome(lambda t=t: exm.get_cell(Cell(*t)).value)
                    if again != first[t]:
                        chk.violation({'why': 'after a failing cell was queried 450 times another query answers differently than before', 'cell': t, 'before': first[t],
                                       'after': again, 'failing_cell': failing[0], 'stream': 'after-many-failures', 'workbook': repr(book.cells)[:800]})
                        break
        outs1, ex1 = em.run_real(cls, setup + queries, observer)
        base = answers(queries, outs1[len(setup):])
        perm = list(queries)
        rng.shuffle(perm)
        doubled = [q for q in perm for _ in (0, 1)]
        outs2, _ = em.run_real(cls, setup + doubled)
        other = answers(doubled, outs2[len(setup):])
        # the same set-cells calls with queries interleaved between them: the final answers may not depend on what was asked before
        inter = []
        for op in setup:
            inter.append(op)
            inter += [rng.choice(queries) for _ in range(rng.randint(1, 3))]
        outs3, _ = em.run_real(cls, inter + queries)
        third = answers(queries, outs3[len(inter):])
        for k in set(base) | set(third):
            vals = base.get(k, set()) | third.get(k, set())
            if len(vals) > 1:
                chk.violation({'why': 'the answer to a query depends on the queries made between the set-cells calls', 'query': repr(k),
                               'answers': sorted(vals), 'stream': 'interleaved', 'history': repr(inter + queries)[:1500]})
        chk.count('law:schedules')
        chk.seen(('law', b, repr(queries)))
        for k in set(base) | set(other):
            vals = base.get(k, set()) | other.get(k, set())
            if len(vals) > 1:
                chk.violation({'why': 'the answer to a query depends on how often / in what order / through which call it was asked', 'query': repr(k),
                               'answers': sorted(vals), 'stream': 'order', 'history': repr(setup + queries)[:1200]})
        # whole-sheet grid = single-cell queries, one entry per coordinate of used range extended by overrides
        lw = em.last_writes(setup)
        for s in range(book.ns):
            W = max([book.w[s]] + [c + 1 for (ss, c, r) in lw if ss == s])
            H = max([book.h[s]] + [r + 1 for (ss, c, r) in lw if ss == s])
            ex = realcode.executor_for(cls)
            ex.set_cells([em.mk_cell(Cell, t, 'num', v) for op in setup if op[0] == 'set' for t, v, _ in op[1]])
            try:
                grid = ex.get_sheet(s)
            except Exception:  # a failing cell fails the whole grid; the model stream covers that
                continue
            chk.count('law:grid')
            if len(grid) != H or any(len(row) != W for row in grid):
                chk.violation({'why': 'sheet grid does not have one entry per coordinate of the used range extended by the overrides', 'sheet': s,
                               'shape': (len(grid), [len(r) for r in grid][:5]), 'expected': (H, W), 'stream': 'grid', 'history': repr(setup)[:800]})
                continue
            for r in range(H):
                for c in range(W):
                    cell = grid[r][c]
                    single = core.outcome(lambda: ex.get_cell(Cell(s, c, r)).value)
                    if (cell.title, cell.column, cell.row) != (s, c, r) or core.outcome(lambda: cell.value) != single:
                        chk.violation({'why': 'sheet grid entry differs from the single-cell query for its coordinate', 'sheet': s, 'coord': (c, r),
                                       'grid': core.outcome(lambda: cell.value), 'single': single, 'stream': 'grid', 'history': repr(setup)[:800]})
    chk.judge('schedules', cases, sample_cap=3)
    order_law_criteria(chk)
    order_law_zoo(chk, rng, 6 if tier == "quick" else 60)
    return chk.finish()


def replay(path):
    data = json.load(open(path))
    for case in data.get('failing_inputs', [])[:20]:
        print('replay case:', json.dumps(case, ensure_ascii=False, default=str)[:800])
    return 1 if data.get('failing_inputs') else 0
