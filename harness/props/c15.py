"""C15 — date functions follow the Gregorian calendar exactly."""
from __future__ import annotations

import calendar
import datetime as dt
import json
import os

from .. import core, realcode

MAXORD = dt.date.max.toordinal()


def D(o):
    return dt.datetime.fromordinal(o)


def run(tier, seed):
    chk = core.Check('C15', tier, seed)
    rng = chk.rng
    chk.rule = ('DATE on a (year, month, day) box incl. zero/negative/overflowing months and days; YEAR/MONTH/DAY inversion on valid '
                'dates; EDATE/EOMONTH on dates x month offsets -60..60; DATEDIF D/M/Y/YM on date pairs; NETWORKDAYS on intervals x '
                'holiday subsets, both directions; calendar externals against datetime/calendar; TODAY against the clock. '
                'distinct = distinct request lines; all are non-trivial (no constant cases)')
    chk.assumptions += ['datetime / calendar / dateutil.relativedelta are externals, modelled in Lean and validated on every run',
                        'TODAY depends on the system clock: compared with date.today() read before and after (runtime, not a theorem)']
    chk.build = core.lean_build(['C15'], tier)
    if not chk.build.driver_ok:
        raise RuntimeError('driver did not build:\n' + chk.build.log[-2000:])
    inst = realcode.runtime_instance()
    q = tier == 'quick'

    # 1. externals: ordinal <-> civil date, weekday, month length
    ords = set([1, 2, 365, 366, 367, MAXORD, MAXORD - 1, 693594, 693595, 693596])
    for y in ([1, 4, 100, 400, 1899, 1900, 1999, 2000, 2023, 2024, 2100, 9999] + [rng.randint(1, 9999) for _ in range(10 if q else 200)]):
        for m in range(1, 13):
            o = dt.date(y, m, 1).toordinal()
            ords.update([o, o - 1] if o > 1 else [o])
            ords.add(dt.date(y, m, calendar.monthrange(y, m)[1]).toordinal())
    if q:
        ords.update(rng.randint(1, MAXORD) for _ in range(20000))
    else:
        ords.update(range(1, MAXORD + 1, 1))
        chk.info['calendar_exhaustive'] = True
    cases = []
    for o in sorted(ords):
        d = dt.date.fromordinal(o)
        got = core.enc([d.year, d.month, d.day, d.weekday(), calendar.monthrange(d.year, d.month)[1]])
        cases.append(('dt fromordinal I%d' % o, got, {'ordinal': o}))
    # the externals stream has no property spec; a mismatch means the Lean calendar is not Python's
    chk.judge('calendar-externals', cases)
    cases = []
    for o in list(sorted(ords))[:: (1 if q else 37)]:
        d = dt.date.fromordinal(o)
        cases.append(('dt ordinal I%d I%d I%d' % (d.year, d.month, d.day), core.enc(o), {'date': str(d)}))
    chk.judge('calendar-externals', cases)

    # 2. DATE
    years = [1900, 1999, 2000, 2023, 2024, 2100, 9999, 0, 100, 1899, -1, 10000] + [rng.randint(1900, 9990) for _ in range(3)]
    months = list(range(-30, 41))
    days = list(range(-800, 801))
    triples = set()
    for y in years:
        for m in (rng.sample(months, 12) + [0, 1, 12, 13, -1] if q else months):
            for d in (rng.sample(days, 25) + [0, 1, -1, -2, 28, 29, 30, 31, 32, -31, -32, 366, -366] if q else
                      rng.sample(days, 300) + [0, 1, -1, -2, 28, 29, 30, 31, 32, -31, -32]):
                triples.add((y, m, d))
    cases = [('dt date I%d I%d I%d' % t, core.outcome(inst._date, *t), {'fn': 'DATE', 'args': list(t)}) for t in sorted(triples)]
    chk.judge('DATE', cases)

    # 3. YEAR / MONTH / DAY invert DATE on valid dates (law on the real code) + model correspondence
    cases = []
    for _ in range(400 if q else 20000):
        y = rng.choice([1900, 2000, 2023, 2024, 2100, 9999, rng.randint(1900, 9999)])
        m = rng.randint(1, 12)
        d = rng.choice([1, calendar.monthrange(y, m)[1], rng.randint(1, calendar.monthrange(y, m)[1])])
        chk.count('law:ymd-inverts-date')
        chk.seen(('ymd', y, m, d))
        try:
            v = inst._date(y, m, d)
            got = (inst._year(v), inst._month(v), inst._day(v))
        except Exception as e:  # noqa
            got = 'E' + core.exc_class(e)
        if got != (y, m, d):
            chk.violation({'why': 'YEAR/MONTH/DAY do not invert DATE', 'args': [y, m, d], 'impl': str(got)})
        o = dt.datetime(y, m, d)
        for fn, f in (('year', inst._year), ('month', inst._month), ('day', inst._day)):
            cases.append(('dt %s %s' % (fn, core.enc(o)), core.outcome(f, o), {'fn': fn, 'arg': str(o)}))
    chk.judge('YMD', cases)

    # 4. EDATE / EOMONTH
    cases = []
    starts = [dt.datetime(2024, 1, 31), dt.datetime(2023, 1, 31), dt.datetime(2024, 2, 29), dt.datetime(2023, 3, 31),
              dt.datetime(2000, 12, 31), dt.datetime(1900, 1, 1), dt.datetime(2024, 5, 30, 13, 45, 10), dt.datetime(2100, 2, 28)]
    starts += [D(rng.randint(693596, 800000)) for _ in range(10 if q else 300)]
    offs = list(range(-60, 61)) + [1.5, -1.5, 0.9, -0.9, 2.0]
    for s in starts:
        for k in (rng.sample(offs, 30) if q else offs):
            for fn, f in (('edate', inst._edate), ('eomonth', inst._eomonth)):
                got = core.outcome(f, s, k)
                # declarative oracle, independent of the model
                kk = int(k)
                idx = s.year * 12 + s.month - 1 + kk
                ty, tm = idx // 12, idx % 12 + 1
                last = calendar.monthrange(ty, tm)[1]
                want = dt.datetime(ty, tm, min(s.day, last), s.hour, s.minute, s.second) if fn == 'edate' else dt.datetime(ty, tm, last)
                chk.count('oracle:' + fn)
                if got != core.enc(want):
                    chk.violation({'why': '%s does not clamp to / return the last day of the target month' % fn.upper(),
                                   'fn': fn, 'start': str(s), 'months': k, 'impl': got, 'want': core.enc(want)})
                cases.append(('dt %s %s %s' % (fn, core.enc(s), core.enc(k)), got, {'fn': fn, 'start': str(s), 'months': k}))
    chk.judge('EDATE-EOMONTH', cases)

    # 5. DATEDIF
    cases = []
    base = dt.date(2019, 1, 1).toordinal()
    span = 6 * 366
    pairs = set()
    for _ in range(3000 if q else 150000):
        a = base + rng.randint(0, span)
        b = a + rng.choice([0, 1, 27, 28, 29, 30, 31, 59, 365, 366, rng.randint(0, span)])
        pairs.add((a, b))
    for y in (2019, 2020, 2023, 2024):       # month-end and leap-day corners
        for m in range(1, 13):
            last = calendar.monthrange(y, m)[1]
            for d1 in (1, 15, 28, last):
                a = dt.date(y, m, d1).toordinal()
                for dd in (0, 28, 29, 30, 31, 334, 365, 366, 730, 1461):
                    pairs.add((a, a + dd))
    for a, b in sorted(pairs):
        s, e = D(a), D(b)
        for mode in ('D', 'M', 'Y', 'YM'):
            got = core.outcome(inst._datedif, s, e, mode)
            # brute-force oracle for complete months
            k = 0
            while (s.year * 12 + s.month + k + 1, s.day) <= (e.year * 12 + e.month, e.day):
                k += 1
            want = {'D': b - a, 'M': k, 'Y': k // 12, 'YM': k % 12}[mode]
            chk.count('oracle:datedif-' + mode)
            if got != core.enc(want):
                chk.violation({'why': 'DATEDIF %s is not the number of complete units' % mode, 'start': str(s.date()),
                               'end': str(e.date()), 'impl': got, 'want': want})
            cases.append(('dt datedif %s %s %s' % (core.enc(s), core.enc(e), core.enc(mode)), got,
                          {'fn': 'datedif', 'start': str(s.date()), 'end': str(e.date()), 'mode': mode}))
    chk.judge('DATEDIF', cases)

    # 6. NETWORKDAYS
    cases = []
    for _ in range(600 if q else 30000):
        a = dt.date(2023, 12, 1).toordinal() + rng.randint(0, 800)
        b = a + rng.randint(-45, 45)
        hol_days = [a + rng.randint(-50, 50) for _ in range(rng.choice([0, 0, 1, 3, 6]))]
        hol = None
        if hol_days or rng.random() < 0.2:
            rows = [[D(h)] for h in hol_days]
            if rng.random() < 0.3:
                rows.append(['x'])
            if rng.random() < 0.2 and rows:
                rows.append([rows[0][0]])       # duplicate holiday
            hol = rows
        s, e = D(a) + dt.timedelta(hours=rng.choice([0, 0, 9])), D(b)
        got = core.outcome(inst._network_days, s, e, hol)
        cases.append(('dt netdays %s %s %s' % (core.enc(s), core.enc(e), core.enc(hol)), got,
                      {'fn': 'networkdays', 'start': str(s), 'end': str(e), 'holidays': [str(D(h).date()) for h in hol_days]}))
    chk.judge('NETWORKDAYS', cases)

    # 7. TODAY
    before = dt.date.today()
    got = inst._today()
    after = dt.date.today()
    chk.count('today')
    chk.seen(('today', str(got)))
    if not (isinstance(got, dt.datetime) and got.time() == dt.time(0, 0) and before <= got.date() <= after):
        chk.violation({'why': 'TODAY is not the current local date at midnight', 'impl': repr(got), 'clock': [str(before), str(after)]})

    end_to_end(chk, tier)
    return chk.finish()


def end_to_end(chk, tier):
    """the translators' glue: argument order, defaults, wrapping"""
    rng = chk.rng
    inst = realcode.runtime_instance()
    n = 40 if tier == 'quick' else 400
    values, formulas, want = {}, [], []
    for r in range(n):
        y, m, d = rng.choice([2023, 2024, 1999]), rng.randint(-20, 30), rng.randint(-400, 400)
        s = D(dt.date(2020, 1, 1).toordinal() + rng.randint(0, 2000))
        e = s + dt.timedelta(days=rng.randint(0, 900))
        k = rng.randint(-30, 30)
        values[(0, r)], values[(1, r)], values[(2, r)] = y, m, d
        values[(3, r)], values[(4, r)], values[(5, r)] = s, e, k
        values[(6, r)] = D(s.toordinal() + rng.randint(0, 30))
        row = r + 1
        mode = rng.choice(['D', 'M', 'Y', 'YM'])
        lo, hi = max(1, row - 2), row
        fs = [
            ('=DATE(A%d,B%d,C%d)' % (row, row, row), lambda: inst._date(y, m, d)),
            ('=DATE(A%d;B%d;%d)' % (row, row, d) if d >= 0 else '=DATE(A%d,B%d,C%d)' % (row, row, row), lambda: inst._date(y, m, d)),
            ('=YEAR(D%d)' % row, lambda: s.year), ('=MONTH(D%d)' % row, lambda: s.month), ('=DAY(E%d)' % row, lambda: e.day),
            ('=EDATE(D%d,F%d)' % (row, row), lambda: inst._edate(s, k)),
            ('=EOMONTH(D%d,F%d)' % (row, row), lambda: inst._eomonth(s, k)),
            ('=DATEDIF(D%d,E%d,"%s")' % (row, row, mode), lambda: inst._datedif(s, e, mode)),
            ('=NETWORKDAYS(D%d,E%d)' % (row, row), lambda: inst._network_days(s, e, None)),
            ('=NETWORKDAYS(E%d,D%d,G%d:G%d)' % (row, row, lo, hi),
             (lambda lo=lo, hi=hi: inst._network_days(e, s, [[values[(6, i)]] for i in range(lo - 1, hi)]))),
            ('=YEAR(DATE(A%d,B%d,C%d))' % (row, row, row), lambda: inst._date(y, m, d).year),
        ]
        for f, w in fs:
            formulas.append(f)
            want.append(core.outcome(w))
    got = realcode.eval_formulas(formulas, values)
    for f, g, w in zip(formulas, got, want):
        chk.count('e2e')
        chk.seen(('e2e', f))
        if g != w:
            chk.violation({'why': 'formula result differs from the helper applied to the same operands (translator glue)',
                           'formula': f, 'impl': g, 'helper': w})
    chk.sample({'formula': formulas[0], 'value': got[0]})
    # date operands supplied by overrides (holiday cells included): the same as the workbook edited
    base = {(0, 0): D(dt.date(2024, 1, 1).toordinal()), (1, 0): D(dt.date(2024, 1, 12).toordinal()), (3, 0): D(dt.date(2024, 1, 3).toordinal()), (3, 1): D(dt.date(2024, 1, 6).toordinal()),
            (3, 2): None, (2, 0): 3}
    of = ['=NETWORKDAYS(A1,B1,D1:D2)', '=NETWORKDAYS(A1,B1,D1:D3)', '=NETWORKDAYS(A1,B1)', '=EDATE(A1,C1)', '=EOMONTH(D2,C1)', '=YEAR(D2)*100+DAY(D2)', '=DATEDIF(A1,B1,"D")', '=MONTH(EDATE(D1,C1))']
    for ov in ({(3, 1): D(dt.date(2024, 1, 9).toordinal())}, {(3, 2): D(dt.date(2024, 1, 10).toordinal())}, {(0, 0): D(dt.date(2023, 12, 25).toordinal()), (2, 0): -2},
               {(3, 0): D(dt.date(2024, 1, 13).toordinal()), (3, 1): D(dt.date(2024, 1, 8).toordinal()), (1, 0): D(dt.date(2024, 2, 29).toordinal())}):
        over = realcode.eval_formulas(of, {k: v for k, v in base.items() if v is not None}, overrides=ov, min_fcol=6, min_rows=3)
        edit = realcode.eval_formulas(of, {k: v for k, v in {**base, **ov}.items() if v is not None}, min_fcol=6, min_rows=3)
        for f, a, z in zip(of, over, edit):
            chk.count('e2e:date-overrides')
            if a != z:
                chk.violation({'why': 'a date function over operands supplied by overrides differs from the same workbook edited', 'formula': f, 'overrides': repr(ov),
                               'impl': a, 'edited workbook': z, 'stream': 'date-overrides'})
    # DATE written with literals only, in particular years below 1900 (Excel adds 1900) and out-of-range months / days
    lits = [(99, 12, 31), (0, 1, 1), (1899, 1, 1), (1900, 1, 1), (5, 14, 40), (2024, 0, 15), (2024, 2, 30), (2023, 13, 1), (24, 2, 29), (1899, 12, 31), (1900, 3, 0), (2024, 12, 31), (1900, 1, 0), (1900, 0, 1), (0, 0, 0), (1900, 1, -5), (0, 1, 0)]
    lf = ['=DATE(%d,%d,%d)' % t for t in lits] + ['=YEAR(DATE(%d,%d,%d))' % t for t in lits]
    lw = [core.outcome(lambda t=t: inst._date(*t)) for t in lits] + [core.outcome(lambda t=t: inst._date(*t).year) for t in lits]
    for f, g, w in zip(lf, realcode.eval_formulas(lf, {}), lw):
        chk.count('e2e:date-literals')
        chk.seen(('e2e', f))
        if g != w:
            chk.violation({'why': 'DATE written with literals differs from DATE applied to the same numbers held by cells (helper)', 'formula': f, 'impl': g, 'helper': w})
    # TODAY in processes whose local date differs from the UTC date: it is the LOCAL date
    import subprocess
    src = ("import sys, datetime as dt, warnings; warnings.filterwarnings('ignore'); sys.path.insert(0, %r); sys.path.insert(0, %r)\n"
           "from harness import realcode, core\n"
           "b = dt.date.today(); g = realcode.eval_formulas(['=TODAY()', '=DAY(TODAY())'], {}); a = dt.date.today()\n"
           "ok = g[0] in (core.enc(dt.datetime.combine(b, dt.time())), core.enc(dt.datetime.combine(a, dt.time()))) and g[1] in ('I%%d' %% b.day, 'I%%d' %% a.day)\n"
           "print('OK' if ok else 'BAD %%s local=%%s' %% (g, b))\n") % (core.REPO, core.VERIF)
    for tz in ('Etc/GMT+12', 'Etc/GMT-14', 'UTC'):
        r = subprocess.run(['/venv/bin/python', '-c', src], env=dict(os.environ, TZ=tz, E2P_REPO=core.REPO), capture_output=True, text=True, timeout=300)
        line = (r.stdout.strip().splitlines() or ['NO-OUTPUT ' + r.stderr[-200:]])[-1]
        chk.count('today:tz')
        chk.seen(('today', tz))
        if not line.startswith('OK'):
            chk.violation({'why': 'TODAY() is not the local date of the process', 'TZ': tz, 'impl': line[:300], 'stream': 'today-timezone'})
    # the clock moves while an executor lives: TODAY is the local date of the moment it is ASKED (the same executor, the same instance,
    # no override in between; the local date is moved by 26 hours through the time zone of the process)
    src2 = ("import sys, os, time, datetime as dt, warnings; warnings.filterwarnings('ignore'); sys.path.insert(0, %r); sys.path.insert(0, %r)\n"
            "from harness import realcode, core\n"
            "m = realcode.mods(); Cell = m['Cell']\n"
            "cls = realcode.load_class(realcode.translate([('S', [['=TODAY()', '=DATEDIF(DATE(2020,1,1),TODAY(),\"D\")', '=DAY(TODAY())']])]))\n"
            "ex = realcode.executor_for(cls)\n"
            "def ask():\n"
            "    b = dt.date.today(); g = [core.outcome(lambda c=c: ex.get_cell(Cell(0, c, 0)).value) for c in range(3)]; a = dt.date.today()\n"
            "    return g, [[core.enc(dt.datetime.combine(d, dt.time())), 'I%%d' %% (d - dt.date(2020, 1, 1)).days, 'I%%d' %% d.day] for d in (b, a)]\n"
            "bad = []\n"
            "for tz in ('Etc/GMT+12', 'Etc/GMT-14', 'Etc/GMT+12', 'UTC'):\n"
            "    os.environ['TZ'] = tz; time.tzset()\n"
            "    g, want = ask()\n"
            "    if g not in want: bad.append((tz, g, want[0]))\n"
            "    g, want = ask()\n"
            "    if g not in want: bad.append((tz + ' again', g, want[0]))\n"
            "print('OK' if not bad else 'BAD %%s' %% bad)\n") % (core.REPO, core.VERIF)
    r = subprocess.run(['/venv/bin/python', '-c', src2], env=dict(os.environ, TZ='UTC', E2P_REPO=core.REPO), capture_output=True, text=True, timeout=300)
    line = (r.stdout.strip().splitlines() or ['NO-OUTPUT ' + r.stderr[-300:]])[-1]
    chk.count('today:clock-moves')
    chk.seen(('today', 'clock-moves'))
    if not line.startswith('OK'):
        chk.violation({'why': 'TODAY() asked again on the same executor after the local date changed is not the local date of that moment', 'impl': line[:400],
                       'stream': 'today-clock-moves'})
    # TODAY end-to-end
    before = dt.date.today()
    g = realcode.eval_formulas(['=TODAY()'], {})[0]
    after = dt.date.today()
    if g not in (core.enc(dt.datetime.combine(before, dt.time())), core.enc(dt.datetime.combine(after, dt.time()))):
        chk.violation({'why': '=TODAY() is not the current local date at midnight', 'impl': g})


def replay(path):
    data = json.load(open(path))
    for case in data.get('failing_inputs', [])[:20]:
        print('replay case:', json.dumps(case, ensure_ascii=False)[:400])
    return 1 if data.get('failing_inputs') else 0
