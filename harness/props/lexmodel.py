"""Tie B for the Lean model of the regex lexer (lean/E2P/Model/Lex.lean): Lexer.parse, <class>.get, text -> tree.

Used by C05 (lexer + parser = the whole front end), C02 (reference scanners) and C06 (the lexer ends on every text)."""
from __future__ import annotations

import re

from .. import core, realcode

# the modelled alphabet: the Lean predicates isWord / isDigit / isWs are checked against Python's on every character of it
ASCII = [chr(i) for i in range(32, 127)] + ['\t', '\n', '\r', '\x0b', '\x0c']
CYR = list('АБВЯабвяЁё')
ALPHABET = ASCII + CYR
REF_CLASSES = ['MatrixOfCellIdentifiersToken', 'CellIdentifierRangeToken', 'CellIdentifierToken']


def S(text):
    return 'S' + '.'.join(str(ord(c)) for c in text)


def lean_is_word(c):
    o = ord(c)
    return c.isascii() and (c.isalnum() or c == '_') or 0x410 <= o <= 0x44F or o in (0x401, 0x451)


def alphabet_law(chk):
    """the character classes of the model agree with Python's on the alphabet the inputs are drawn from"""
    for c in ALPHABET:
        w, d, s = bool(re.fullmatch(r'\w', c)), bool(re.fullmatch(r'\d', c)), bool(re.fullmatch(r'\s', c))
        chk.count('alphabet-char')
        if w != lean_is_word(c) or d != (c in '0123456789') or s != (c in ' \t\n\r\x0b\x0c') or (c.strip() == '') != s:
            chk.mismatch({'why': 'a character of the modelled alphabet is classified differently by Python', 'char': repr(c), 'stream': 'lexer-alphabet'})


_log = []
_patched = [False]


def _patch():
    """log (class, consumed text) of every successful <class>.get — harness-side wrapper, nothing in the repository changes"""
    if _patched[0]:
        return
    from excel2pycl.src.tokens.regexp_base_token import RegexpBaseToken
    orig = RegexpBaseToken.get.__func__

    def get(cls, expression, in_cell):
        tok, rest = orig(cls, expression, in_cell)
        if tok is not None:
            _log.append((cls.__name__, expression[:len(expression) - len(rest)]))
        return tok, rest
    RegexpBaseToken.get = classmethod(get)
    _patched[0] = True


def real_lex(text):
    from excel2pycl.src.lexer import Lexer
    from excel2pycl.src.exceptions import E2PyclParserException
    _patch()
    del _log[:]
    Cell = realcode.mods()['Cell']
    try:
        toks = Lexer.parse(text, in_cell=Cell(0, 0, 0))
    except E2PyclParserException as e:
        msg = str(e.args[0]) if e.args else ''
        return 'EUndefined' if 'Undefined token' in msg else 'ETooLarge' if 'too large' in msg else 'EParser:' + msg[:40]
    except Exception as e:  # noqa
        return 'E' + type(e).__name__
    got = [(c, t) for c, t in _log]
    if [c for c, _ in got] != [type(t).__name__ for t in toks]:
        return 'EDropped ' + ' '.join('%s=%s' % (c, S(t)) for c, t in got)
    return ' '.join(['OK'] + ['%s=%s' % (c, S(t)) for c, t in got])


def real_get(cls_name, text):
    import excel2pycl.src.tokens as T
    from excel2pycl.src.exceptions import E2PyclParserException
    Cell = realcode.mods()['Cell']
    cls = getattr(T, cls_name)
    try:
        tok, rest = cls.get(text, Cell(None, 0, 0))
    except E2PyclParserException:
        return None
    if tok is None:
        return 'NONE'

    def ref(c):
        return '%s %s %s' % ('@' if c.title is None else S(c.title), S(c.column), S(c.row or ''))
    if cls_name == 'CellIdentifierToken':
        return '%s %s' % (ref(tok.cell), S(rest))
    if cls_name == 'MatrixOfCellIdentifiersToken':
        return '%s %s %s' % (ref(tok.matrix[0]), ref(tok.matrix[1]), S(rest))
    if cls_name == 'CellIdentifierRangeToken':
        return '%s %s %s' % (ref(tok.range[0]), ref(tok.range[1]), S(rest))
    if cls_name == 'PatternToken':
        return '%s %s' % (S(tok.value[0][1:-1]), S(rest))
    if cls_name == 'LiteralToken':
        v = tok.value
        if v in ('True', 'False'):
            return '%s %s' % (v.lower(), S(rest))
        if v[:1] in '\'"':
            return 'str %s %s' % (S(eval(v)), S(rest))  # the literal's text (the model's raw body with doubled quotes replaced)
        return 'num %s' % S(rest)
    return S(rest)


# --- generators -------------------------------------------------------------------------------------------------

TITLES = ['', 'S', 'Sheet1', 'Data_2', 'A1', 'SUM', 'Лист', '1st', 'x y', "it's", "'", "a''b", 'a!b', 'A1:B2', '$', 'a b!C1', '"q"', '!', "x'!A1"]


def spell_title(rng, t):
    if t == '' and rng.random() < 0.7:
        return ''
    if re.fullmatch(r'\w*', t) and rng.random() < 0.6:
        return t + '!'
    return "'" + t.replace("'", "''") + "'!"


def spell_col(rng):
    return ''.join(rng.choice('ABCXYZ') for _ in range(rng.choice([1, 1, 1, 2, 3])))


def spell_row(rng):
    return str(rng.choice([1, 2, 5, 9, 10, 12, 99, 100, 1048576, 0, 7]))


def ref_text(rng):
    """a reference spelling, or something close to one"""
    d = lambda: rng.choice(['', '', '$'])
    t = spell_title(rng, rng.choice(TITLES))
    k = rng.random()
    c1, r1, c2, r2 = spell_col(rng), spell_row(rng), spell_col(rng), spell_row(rng)
    if k < 0.25:
        s = t + d() + c1 + d() + r1
    elif k < 0.5:
        s = t + d() + c1 + d() + r1 + ':' + d() + c2 + d() + r2
    elif k < 0.6:
        s = t + d() + c1 + d() + r1 + ':' + d() + c1 + d() + r2
    elif k < 0.7:
        s = t + d() + c1 + d() + r1 + ':' + d() + c2 + d() + r1
    elif k < 0.8:
        s = t + d() + c1 + ':' + d() + rng.choice([c1, c2])
    elif k < 0.9:
        s = t + d() + c1 + d() + r1 + ':' + d() + c2
    else:
        s = t + d() + c1 + ':' + d() + c2 + d() + r2
    return s


TAILS = ['', '', '', ')', ',', ';', '+1', ' ', '\n', ':', ':B', ':B2', '2', '$', '$3', '$A', '!', '(', '%', '&"x"', 'x', 'B', ':$', '.5', "'", '"']


def near_ref(rng):
    s = ref_text(rng) + rng.choice(TAILS)
    k = rng.random()
    if k < 0.25 and s:
        i = rng.randrange(len(s))
        s = s[:i] + rng.choice(['', '$', ':', '!', "'", ' ', 'A', '1', 'a', '_']) + s[i + (rng.random() < 0.5):]
    return s


def literal_text(rng):
    k = rng.random()
    if k < 0.35:
        body = ''.join(rng.choice(['a', 'b', ' ', '""', '*', '?', '~', '~*', '~?', "'", '\\', '{', '}', '\n', '%', 'Я', '1', ',']) for _ in range(rng.randrange(0, 6)))
        s = '"' + body + '"'
        if rng.random() < 0.15:
            s = s[:-1]
        if rng.random() < 0.2:
            s += rng.choice(['"', '""', '"x"', 'x'])
    elif k < 0.8:
        s = str(rng.choice([0, 1, 7, 12, 100, 1234567, 10 ** 20, '007', '00']))
        if rng.random() < 0.5:
            s += rng.choice(['.', '.5', '.05', '.', '.e1', '.125', '..5'])
        if rng.random() < 0.5:
            s += rng.choice(['e5', 'e-5', 'e', 'e-', 'E5', 'e+5', 'e05', 'e308', 'e309', 'e400', 'e-400', 'e999999999', 'e310', 'e3.5'])
    else:
        s = rng.choice(['TRUE', 'FALSE', 'TRUE()', 'FALSE()', 'TRUE(', 'TRUE( )', 'TRUE1', 'True', 'FALSEX', 'TRUEFALSE'])
    return s + rng.choice(TAILS)


def table_literals():
    """every literal alternative of every class of Lexer.TOKENS whose regex is an alternation of escaped literals (read from the classes of this run)"""
    from excel2pycl.src.lexer import Lexer
    out = []
    for t in Lexer.TOKENS:
        rx = getattr(t, 'regexp', None)
        if not isinstance(rx, str) or not rx:
            continue
        alts, cur, i, ok = [], '', 0, True
        while i < len(rx):
            ch = rx[i]
            if ch == '\\' and i + 1 < len(rx) and not rx[i + 1].isalnum():
                cur += rx[i + 1]
                i += 2
                continue
            if ch == '|':
                alts.append(cur)
                cur = ''
            elif ch in '[](){}*+?.^$\\':
                ok = False
                break
            else:
                cur += ch
            i += 1
        if ok:
            out += [a for a in alts + [cur] if a]
    return out


_TABLE_LITERALS = []


def soup(rng):
    if not _TABLE_LITERALS:
        _TABLE_LITERALS.extend(table_literals() or [''])
    if rng.random() < 0.35:
        base = ['A1', '1', '"a"', '(', ')', ',', '+', ' ', 'SUM', '=']
        return ''.join(rng.choice(_TABLE_LITERALS if rng.random() < 0.5 else base) for _ in range(rng.randrange(1, 7)))
    pieces = ['A1', 'B2', 'A1:B2', 'A:A', '$A$1', 'S!A1', "'x y'!A1", '1', '2.5', '1e3', '"a"', '"a*"', '""', 'TRUE', 'FALSE', 'SUM', 'SUMIF', 'SUMIFS', 'IF', 'IFS', 'IFERROR',
              'COUNT', 'COUNTBLANK', 'COUNTIFS', 'ROUND', 'ROUNDUP', 'ROUNDDOWN', 'DATE', 'DATEDIF', 'DAY', 'MATCH', 'XMATCH', 'MAX', 'MIN', 'MID', 'OR', 'AND', 'AVERAGE',
              'AVERAGEIFS', '(', ')', ',', ';', '~', '<>', '>=', '<=', '=', '>', '<', '+', '-', '*', '/', '&', '%', ' ', '  ', '\t', '\n', '#', '@', 'x', 'Я', '_', '.', ':', '!',
              "'", '"', '$', '{', '}', '^', 'e', 'E']
    return ''.join(rng.choice(pieces) for _ in range(rng.randrange(1, 9)))


def run_lexer_streams(chk, tier, formulas):
    """formulas: texts from the grammar generator (valid derivations and mutants)"""
    rng = chk.rng
    alphabet_law(chk)
    n = 1500 if tier == 'quick' else 30000
    texts, seen = [], set()

    def add(t):
        if t not in seen and all(c in ALPHABET for c in t):
            seen.add(t)
            texts.append(t)
    for f in formulas:
        add(f)
    while len(texts) < len(formulas) + n:
        k = rng.random()
        add('=' + near_ref(rng) if k < 0.3 else '=' + literal_text(rng) if k < 0.5 else soup(rng) if k < 0.8 else rng.choice([' ', '\n', '']) + soup(rng) + rng.choice([' ', '\t\n', '']))
    cases = []
    for t in texts:
        out = real_lex(t)
        chk.count('lex:' + out.split(' ')[0].split(':')[0])
        chk.seen(('lex', t))
        if out.startswith('EDropped'):
            chk.violation({'why': 'the lexer consumed a part of the text that is neither whitespace nor among the tokens it returns: that part of the formula is dropped',
                           'text': t, 'consumed': out[9:][:400], 'stream': 'lexer-drops'})
            continue
        if out.startswith('E') and out.split(' ')[0] not in ('EUndefined', 'ETooLarge') and not out.startswith('EParser'):
            chk.violation({'why': 'the lexer ends with an exception that is not the library\'s parser exception', 'text': t, 'impl': out[:120], 'stream': 'lexer-exception'})
            continue
        cases.append(('lx ' + S(t), out, {'text': t}))
    chk.judge('lexer', cases, sample_cap=4)
    # one class at a time
    cases = []
    m = 1200 if tier == 'quick' else 25000
    seen = set()
    while len(cases) < m:
        k = rng.random()
        if k < 0.6:
            cls, t = rng.choice(REF_CLASSES), near_ref(rng)
        elif k < 0.8:
            cls, t = rng.choice(['PatternToken', 'LiteralToken']), literal_text(rng)
        else:
            cls, t = rng.choice(['SeparatorToken', 'NotEqOperatorToken', 'SumIfSKeywordToken', 'SumKeywordToken', 'IfKeywordToken', 'BracketStartToken', 'PercentToken',
                                 'MultiplicationOperatorToken', 'PlusOperatorToken', 'GtOrEqualOperatorToken']), soup(rng)
        # a text that ends in a line break is never handed to <class>.get by Lexer.parse (it strips first); there Python's `$` also matches before the
        # final line break, a quirk the scanners do not model
        if (cls, t) in seen or not all(c in ALPHABET for c in t) or t.endswith('\n'):
            continue
        seen.add((cls, t))
        out = real_get(cls, t)
        if out is None:
            chk.count('get:raised')
            continue
        chk.count('get:%s:%s' % (cls, 'none' if out == 'NONE' else 'match'))
        chk.seen(('get', cls, t))
        cases.append(('lt %s %s' % (cls, S(t)), out, {'class': cls, 'text': t}))
    chk.judge('lexer-class-get', cases, sample_cap=4)


def run_ref_scanners(chk, tier):
    """C02: the three reference token classes, one at a time, on spellings and near misses: <class>.get vs the Lean scanners"""
    rng = chk.rng
    alphabet_law(chk)
    cases, seen = [], set()
    m = 1500 if tier == 'quick' else 30000
    while len(cases) < m:
        cls = rng.choice(REF_CLASSES)
        t = near_ref(rng) if rng.random() < 0.7 else ref_text(rng) + rng.choice(TAILS)
        if (cls, t) in seen or not all(c in ALPHABET for c in t) or t.endswith('\n'):      # see run_lexer_streams: `$` before a final line break
            continue
        seen.add((cls, t))
        out = real_get(cls, t)
        if out is None:
            chk.count('get:raised')
            continue
        chk.count('get:%s:%s' % (cls, 'none' if out == 'NONE' else 'match'))
        chk.seen(('get', cls, t))
        cases.append(('lt %s %s' % (cls, S(t)), out, {'class': cls, 'text': t}))
    chk.judge('reference-scanners', cases, sample_cap=4)
