"""C05 — a formula is translated whole or rejected, never silently truncated."""
from __future__ import annotations

import json

from .. import core, realcode, gramgen
from . import lexmodel


def sexp(tok):
    from excel2pycl.src.tokens.composite_base_token import CompositeBaseToken
    if isinstance(tok, CompositeBaseToken):
        return '(' + type(tok).__name__ + ' ' + ' '.join(sexp(k) for k in tok.value) + ')'
    return type(tok).__name__


def leaves(tok):
    from excel2pycl.src.tokens.composite_base_token import CompositeBaseToken
    if isinstance(tok, CompositeBaseToken):
        out = []
        for k in tok.value:
            out += leaves(k)
        return out
    return [tok]


def real_parse(text):
    """-> (outcome, token classes or None).  outcome: 'A <sexp>' | 'REJECT' | 'E<foreign>'; lexer failures are 'LEX-REJECT' / 'LEX-E<foreign>'"""
    from excel2pycl.src.lexer import Lexer
    from excel2pycl.src.ast_builder import AstBuilder
    from excel2pycl.src.exceptions import E2PyclParserException
    Cell = realcode.mods()['Cell']
    cell = Cell(0, 0, 0)
    try:
        toks = Lexer.parse(text, in_cell=cell)
    except E2PyclParserException:
        return 'LEX-REJECT', None, None
    except Exception as e:  # noqa
        return 'LEX-E' + type(e).__name__, None, None
    classes = [type(t).__name__ for t in toks]
    try:
        tree = AstBuilder.parse(toks, in_cell=cell)
    except E2PyclParserException:
        return 'REJECT', classes, None
    except RecursionError:
        return 'ERecursionError', classes, None
    except Exception as e:  # noqa
        return 'E' + type(e).__name__, classes, None
    if tree is None:
        return 'ENoneReturned', classes, None
    return 'A ' + sexp(tree), classes, (toks, tree)


def mutate(rng, toks):
    toks = list(toks)
    k = rng.choice(['del', 'ins', 'dup', 'swap', 'append', 'append', 'truncate', 'sep', 'sep'])
    extra = [('BracketFinishToken', ')'), ('BracketStartToken', '('), ('SeparatorToken', ','), ('PlusOperatorToken', '+'), ('LiteralToken', '1'),
             ('LiteralToken', '"q"'), ('CellIdentifierToken', 'A1'), ('PercentToken', '%'), ('MultiplicationOperatorToken', '*'), ('EqOperatorToken', '=')]
    i = rng.randrange(len(toks))
    if k == 'sep':
        # a separator where no argument follows or precedes it: before a closing bracket, after an opening one, or doubled
        spots = [j for j, t in enumerate(toks) if t[0] == 'BracketFinishToken'] + [j + 1 for j, t in enumerate(toks) if t[0] in ('BracketStartToken', 'SeparatorToken')]
        if spots:
            toks.insert(rng.choice(spots), ('SeparatorToken', rng.choice([',', ';'])))
            return toks
        k = 'append'
    if k == 'del' and len(toks) > 1:
        del toks[i]
    elif k == 'ins':
        toks.insert(i, rng.choice(extra))
    elif k == 'dup':
        toks.insert(i, toks[i])
    elif k == 'swap' and len(toks) > 2:
        j = rng.randrange(len(toks))
        toks[i], toks[j] = toks[j], toks[i]
    elif k == 'truncate' and len(toks) > 2:
        toks = toks[:rng.randrange(1, len(toks))]
    else:
        toks.append(rng.choice(extra))
    return toks


def run(tier, seed):
    chk = core.Check('C05', tier, seed)
    rng = chk.rng
    chk.rule = ('random derivations of the repository\'s own token-set grammar (every supported function with every argument shape the grammar defines, operator '
                'expressions, nesting) rendered as text, plus mutants (token deleted / inserted / doubled / swapped / appended, truncated), lexed and parsed by the real '
                'Lexer + AstBuilder: outcome (accepted tree / parser exception / foreign exception) vs the Lean interpreter run on the grammar table of this run; '
                'on the real code: an accepted tree\'s leaves are exactly the lexed tokens; whitespace (space, tab, newline; leading, between, trailing) and the choice '
                'of , or ; do not change the outcome nor the value; a blank inside a number / name / address / two-character operator is never ignored (=1 2 is not =12); a call with one argument more than Excel defines for the function is rejected; changing a numeric literal '
                'of an accepted formula changes the generated class (nothing is ignored); Lexer.parse and <class>.get vs the Lean lexer on formula texts, near-miss references, literals and '
                'token soups; text -> tree through the Lean lexer + parser vs the real front end. distinct = distinct formula texts')
    chk.assumptions += ['the lexer model (Model/Lex.lean) has hand-written scanners for the five complex regexes (matrix, range, cell, pattern, literal), pinned to their regex sources by '
                        'pinned_sources and compared with <class>.get / Lexer.parse on generated texts; \\w \\d \\s are modelled on ASCII + Cyrillic letters (checked per character '
                        'against Python); whitespace insensitivity between tokens is a law on the real code, not a theorem']
    chk.build = core.lean_build(['C05'], tier)
    if not chk.build.driver_ok:
        raise RuntimeError('driver did not build:\n' + chk.build.log[-2000:])
    core.import_repo()
    n = 2500 if tier == 'quick' else 40000
    texts, seen = [], set()
    while len(texts) < n:
        toks = gramgen.sentence(rng)
        if len(toks) > 60:
            continue
        for variant in [toks] + [mutate(rng, toks) for _ in range(2)]:
            t = gramgen.render(rng, variant)
            if t not in seen:
                seen.add(t)
                texts.append((t, variant is toks))
    cases = []
    for text, valid in texts:
        out, classes, parsed = real_parse(text)
        chk.count('outcome:' + out.split(' ')[0])
        chk.count('generated:' + ('derivation' if valid else 'mutant'))
        if out.startswith('LEX-'):
            chk.seen(('lex', text))
            if out != 'LEX-REJECT':
                chk.violation({'why': 'the lexer fails with a foreign exception', 'formula': text, 'impl': out, 'stream': 'lexer'})
            continue
        if out.startswith('E'):
            chk.violation({'why': 'parsing ends with a foreign exception instead of the parser exception', 'formula': text, 'impl': out, 'stream': 'parse-outcome'})
        if parsed is not None:
            toks, tree = parsed
            if [id(x) for x in leaves(tree)] != [id(x) for x in toks]:
                chk.violation({'why': 'the accepted tree does not cover exactly the lexed tokens (something was dropped, duplicated or invented)', 'formula': text,
                               'tokens': classes, 'tree': out[:400], 'stream': 'whole-or-rejected'})
        cases.append(('pg 300 EntryPointToken ' + ' '.join(classes), out, {'formula': text}))
    chk.judge('parse', cases, sample_cap=4)
    # the whole front end in the model: text -> (Lean lexer) -> tokens -> (Lean token-set parser with the proved depth) -> tree
    front = []
    for text, valid in texts:
        if not all(c in lexmodel.ALPHABET for c in text):
            continue
        out, classes, parsed = real_parse(text)
        if out == 'LEX-REJECT':
            out = lexmodel.real_lex(text)
        front.append(('lp ' + lexmodel.S(text), out, {'formula': text}))
    chk.judge('text-to-tree', front, sample_cap=4)
    lexmodel.run_lexer_streams(chk, tier, [t for t, _ in texts[:600 if tier == 'quick' else 6000]])
    laws(chk, tier)
    arity_law(chk)
    separator_law(chk)
    qualifier_law(chk)
    keyword_columns_law(chk)
    glue_law(chk, [t for t, valid in texts if valid], tier)
    insertion_law(chk, [t for t, valid in texts if valid], tier)
    sensitivity_law(chk, [t for t, valid in texts if valid], tier)
    return chk.finish()


def laws(chk, tier):
    """whitespace and separator insensitivity on the real code, through evaluation"""
    rng = chk.rng
    base = ['=SUM(1,2,3)', '=MAX(1,5,2)', '=SUM(A1,2,3.5,4)', '=IF(A1>0,1,2)+SUM(1,2)', '=1+2*3', '=SUM(A1:B2,3)', '=IF(A1>1,"a","b")', '=A1&"x"&B2', '=ROUND(A1/3,2)', '=(A1+B2)*2', '=MAX(A1,B2,7)', '=LEFT("hello",2)',
            '=IFERROR(A1/0,5)', '=-A1+3', '=A1%', '=COUNT(A1:B2,1)', '=MID("abcdef",2,3)', '=DATE(2024,2,29)', '=VLOOKUP(1,A1:B2,2,FALSE)',
            '=MIN(A1:A2;B1:B2)', '=AND(A1>0,B2>0)', '=IFS(A1>5,1,TRUE,2)', '=1+2)', '=1+', '=SUM(1,2))', '=SUM(1,,2)', '=IF(1,2,3,4)', '=LEFT()']
    values = {(0, 0): 1, (1, 0): 2, (0, 1): 3, (1, 1): 4}
    from excel2pycl.src.lexer import Lexer
    Cell = realcode.mods()['Cell']
    rounds = 3 if tier == 'quick' else 40
    for f in base:
        try:
            toks = [(type(t).__name__, f) for t in Lexer.parse(f, in_cell=Cell(0, 0, 0))]
        except Exception:
            continue
        # token texts: re-lex progressively to recover each token's source text
        texts = split_texts(f)
        variants = [f]
        for _ in range(rounds):
            variants.append(gramgen.render(rng, [(None, t) for t in texts], ws=' \t\n'))
            variants.append(gramgen.render(rng, [(None, t) for t in texts], ws=' '))
        swapped = ''.join(( ';' if t == ',' else ',' if t == ';' else t) for t in texts)
        variants.append(swapped)
        for _ in range(rounds):      # both separators mixed in one formula
            variants.append(''.join((rng.choice(',;') if t in (',', ';') else t) for t in texts))
        outs = realcode.eval_formulas(variants, values)
        for v, o in zip(variants, outs):
            chk.count('law:whitespace/separator')
            chk.seen(('law', v))
            if o != outs[0]:
                chk.violation({'why': 'whitespace between tokens or the choice of , / ; changes the result', 'formula': f, 'variant': v,
                               'impl': outs[0], 'impl_variant': o, 'stream': 'ws-sep-law'})


# a call with every argument the function has (in Excel and in the runtime helper it is translated to); one more argument could only be ignored, so it
# must never be accepted.  COUNTBLANK is not listed: the implementation counts over all its arguments (an extension that ignores nothing).
MAXIMAL_CALLS = ['ADDRESS(1,2,1,TRUE,"S")', 'COLUMN(A1)', 'DAY(A1)', 'MONTH(A1)', 'YEAR(A1)', 'DATE(2024,1,2)',
                 'DATEDIF(A1,A2,"D")', 'EDATE(A1,1)', 'EOMONTH(A1,1)', 'IF(A1>1,2,3)', 'IFERROR(A1,2)', 'INDEX(A1:B2,1,1,1)', 'LEFT("abc",2)', 'RIGHT("abc",2)',
                 'MID("abc",1,2)', 'MATCH(1,A1:A2,0)', 'XMATCH(1,A1:A2,0,1)', 'NETWORKDAYS(A1,A2,A1:A2)', 'ROUND(1.5,1)', 'ROUNDUP(1.5,1)',
                 'ROUNDDOWN(1.5,1)', 'SEARCH("a","abc",1)', 'SUMIF(A1:A2,">1",B1:B2)', 'TODAY()', 'VLOOKUP(1,A1:B2,2,FALSE)', 'TEXT(1,"0")', 'VALUE("1")']
EXTRA_ARGS = ['1', '"x"', 'A1', 'A1:B2', 'TRUE', '1+1', '99,1', '1,1,1']


def arity_law(chk):
    """no supported function is accepted with more arguments than Excel defines for it (the extra ones could only be dropped)"""
    for call in MAXIMAL_CALLS:
        for extra in EXTRA_ARGS:
            inner = call[:-1]
            f = '=' + inner + ('' if inner.endswith('(') else ',') + extra + ')'
            for wrap in (f, '=1+' + f[1:], '=IF(TRUE,' + f[1:] + ',0)'):
                out, _, _ = real_parse(wrap)
                chk.count('law:arity:' + out.split(' ')[0])
                chk.seen(('arity', wrap))
                if out.startswith('A '):
                    chk.violation({'why': 'a function call with more arguments than the function has is accepted (the extra arguments can only be ignored)', 'formula': wrap,
                                   'tree': out[:300], 'stream': 'arity-law'})


def separator_law(chk):
    """a separator must separate two arguments: none may trail, lead or be doubled in the argument list of any function"""
    calls = ['SUM(1,2)', 'MAX(A1:A2,3)', 'MIN(1,2)', 'AVERAGE(1,2)', 'COUNT(1,2)', 'COUNTBLANK(A1:B2)', 'AND(TRUE,FALSE)', 'OR(TRUE,FALSE)', 'CONCATENATE("a","b")',
             'IFS(TRUE,2)', 'IF(TRUE,1,2)', 'SUMIFS(A1:A2,B1:B2,1)', 'COUNTIFS(A1:A2,1)', 'VLOOKUP(1,A1:B2,2)', 'MATCH(1,A1:A2,0)', 'LEFT("ab",1)', 'DATE(2024,1,2)',
             'INDEX(A1:B2,1,1)', 'NETWORKDAYS(A1,A2)', 'ADDRESS(1,2,4)']
    for call in calls:
        inner = call[:-1]
        head = call[:call.index('(') + 1]
        args = inner[len(head):]
        first_sep = args.index(',') if ',' in args else None
        variants = [inner + ',)', inner + ';)', head + ',' + args + ')', inner + ',,)', inner + ',+)', inner + ',-)', head + '+)', inner + '$)', head.replace('(', '$(') + args + ')',
                    inner + ')$', inner + '+$2)']
        if first_sep is not None:
            variants.append(head + args[:first_sep] + ',,' + args[first_sep + 1:] + ')')
        for v in variants:
            for wrap in ('=' + v, '=1+' + v, '=IF(TRUE,' + v + ',0)'):
                out, _, _ = real_parse(wrap)
                chk.count('law:separator:' + out.split(' ')[0])
                chk.seen(('separator', wrap))
                if out.startswith('A ') and not (call.startswith(('ROUND', 'IF(')) ):
                    chk.violation({'why': 'a separator with no argument after / before it is accepted (it can only be dropped)', 'formula': wrap, 'tree': out[:300],
                                   'stream': 'separator-law'})


def qualifier_law(chk):
    """a sheet qualifier written inside a reference is never consumed and ignored: with the qualifier the formula is rejected or means something else than without it"""
    sheets = lambda f: [('S', [[1, 2, None], [3, 4, None], [None, None, f]]), ('T', [[10, 20], [30, 40]])]
    pairs = [('=SUM(A1:T!B2)', '=SUM(A1:B2)'), ("=SUM(A1:'T'!B2)", '=SUM(A1:B2)'), ('=A1:T!B2', '=A1:B2'), ('=SUM(T!A1:T!B2)', '=SUM(A1:B2)'), ('=A1+T!A1', '=A1+A1'),
             ('=SUM(A1:Nope!B2)', '=SUM(A1:B2)'), ('=INDEX(A1:T!B2,1,1)', '=INDEX(A1:B2,1,1)')]
    for with_q, without in pairs:
        try:
            a = realcode.translate(sheets(with_q), entry=(0, 2, 2))
        except Exception:
            chk.count('law:qualifier:rejected')
            continue
        b = realcode.translate(sheets(without), entry=(0, 2, 2))
        chk.count('law:qualifier:translated')
        chk.seen(('qualifier', with_q))
        if a == b:
            chk.violation({'why': 'a sheet qualifier inside a reference is consumed and ignored: the formula translates to the class of the formula without it', 'formula': with_q,
                           'same_as': without, 'stream': 'qualifier-law'})


def keyword_columns_law(chk):
    """columns whose letters spell a function name (IF, OR, AND, SUM, MAX, DAY, MIN, MID …) are columns: IF1 is a cell, IF( is the function"""
    forms = ['=IF1+OR2+SUM3+MAX4+DAY5+AND6+1', '=IF(IF1=0,"z","nz")', '=SUM(IF1:IF3,OR1)+2', '=IFERROR(10/IF2,"n/a")', '=IFS(IF1>50,"big",TRUE,"small")', '=MAX(MIN1,MID2,3)',
             '=COUNT(SUM1:SUM2)', '=DAY1+AND2*OR3']
    want = ['I1', core.enc('z'), 'I2', core.enc('n/a'), core.enc('small'), 'I3', 'I0', 'I0']
    outs = realcode.eval_formulas(forms, {(0, 0): 1})
    for f, o, w in zip(forms, outs, want):
        chk.count('law:keyword-columns')
        chk.seen(('kwcol', f))
        if o.startswith('E') and o[1:] in ('Parser', 'Cell') or (w is not None and o != w):
            chk.violation({'why': 'a reference to a cell in a column whose letters spell a function name is not read as a reference', 'formula': f, 'impl': o, 'want': w,
                           'stream': 'keyword-columns'})


def glue_law(chk, texts, tier):
    """whitespace separates tokens: a blank put INSIDE a number, a name, a cell address or a two-character operator gives another text, which
    is either rejected or translated to something else - never to the class of the original formula (=1 2 is not =12)"""
    import re as _re
    rng = chk.rng
    want = 200 if tier == 'quick' else 3000
    fixed = ['=12+3', '=SUM(1,2)', '=A1+B2', '=1<=2', '=1>=2', '=1<>2', '=2e3', '=1.5*2', '=IF(TRUE,10,20)', '=AB12', '=SUMIFS(A1:A2,B1:B2,">1")', '=ROUNDDOWN(12.345,1)']
    done = 0
    rows = lambda f: [('S', [[1, 2, None, None], [3, 4, None, None], [None, None, None, None], [None, None, None, f]])]
    for text in fixed + texts:
        if done >= want:
            break
        parts = split_texts(text)
        cands = [i for i, p in enumerate(parts) if len(p) >= 2 and (_re.fullmatch(r'[A-Za-z]+|\d+|\$?[A-Z]+\$?\d+|<=|>=|<>|\d+\.\d+|\d+e-?\d+', p))]
        if not cands:
            continue
        try:
            base = realcode.translate(rows(''.join(parts)), entry=(0, 3, 3))
        except Exception:
            continue
        done += 1
        for i in rng.sample(cands, min(3, len(cands))):
            p = parts[i]
            k = rng.randrange(1, len(p))
            ws = rng.choice([' ', ' ', '  ', '\t', '\n'])
            variant = ''.join(parts[:i] + [p[:k] + ws + p[k:]] + parts[i + 1:])
            try:
                other = realcode.translate(rows(variant), entry=(0, 3, 3))
            except Exception:
                chk.count('law:glue:variant-rejected')
                chk.seen(('glue', variant))
                continue
            chk.count('law:glue:variant-translated')
            chk.seen(('glue', variant))
            if other == base:
                chk.violation({'why': 'whitespace inside a token is ignored: a text that is not the formula is translated as if it were', 'formula': ''.join(parts),
                               'variant': variant, 'stream': 'glue-law'})


def insertion_law(chk, texts, tier):
    """nothing written in an accepted formula is ignored: an empty pair of brackets put behind a literal (=5(), ="a"()) gives another text, which is rejected or translated
    to something else - never to the class of the formula without it"""
    import re as _re
    rng = chk.rng
    want = 150 if tier == 'quick' else 2000
    fixed = ['=5', '="abc"', '=1+2', '=SUM(1,2)', '=IF(A1>0,"y","n")', '=2.5*A1', '=ROUND(12.345,1)', '="a"&"b"', '=-3', '=7%']
    rows = lambda f: [('S', [[1, 2, None, None], [3, 4, None, None], [None, None, None, None], [None, None, None, f]])]
    done = 0
    for text in fixed + texts:
        if done >= want:
            break
        parts = split_texts(text)
        cands = [i for i, p in enumerate(parts) if _re.fullmatch(r'\d+(\.\d+)?|"[^"]*"', p) and not (i + 1 < len(parts) and parts[i + 1].startswith(('(', ':', '!')))]
        if not cands:
            continue
        try:
            base = realcode.translate(rows(''.join(parts)), entry=(0, 3, 3))
        except Exception:
            continue
        done += 1
        for i in rng.sample(cands, min(2, len(cands))):
            for ins in ('()', ' ( )'):
                variant = ''.join(parts[:i + 1] + [ins] + parts[i + 1:])
                try:
                    other = realcode.translate(rows(variant), entry=(0, 3, 3))
                except Exception:
                    chk.count('law:insertion:variant-rejected')
                    chk.seen(('insertion', variant))
                    continue
                chk.count('law:insertion:variant-translated')
                chk.seen(('insertion', variant))
                if other == base:
                    chk.violation({'why': 'a pair of brackets written behind a literal is dropped: the text is translated as if it were not there', 'formula': ''.join(parts),
                                   'variant': variant, 'stream': 'insertion-law'})


def sensitivity_law(chk, texts, tier):
    """nothing of an accepted formula is ignored: changing one numeric literal of the formula changes the generated class"""
    import re as _re
    rng = chk.rng
    n = 0
    want = 250 if tier == 'quick' else 4000
    for text in texts:
        if n >= want:
            break
        if 'TEXT' in text:
            # TEXT(value, format) is implemented as its first argument: the format is parsed and deliberately not used (since the pinned commit); that is a
            # missing feature of one function, not a truncated formula, and is not reported
            continue
        parts = split_texts(text)
        idx = [i for i, p in enumerate(parts) if _re.fullmatch(r'[1-9]\d{0,3}', p)]
        if not idx:
            continue
        rows = lambda f: [('S', [[1, 2, None, None], [3, 4, None, None], [None, None, None, None], [None, None, None, f]])]
        try:
            base = realcode.translate(rows(text), entry=(0, 3, 3))
        except Exception:
            continue
        n += 1
        for i in rng.sample(idx, min(3, len(idx))):
            mutated = list(parts)
            mutated[i] = str(int(parts[i]) + 1)
            f2 = ' '.join(mutated)
            try:
                other = realcode.translate(rows(f2), entry=(0, 3, 3))
            except Exception:
                chk.count('law:sensitivity:mutant-rejected')
                continue
            chk.count('law:sensitivity')
            chk.seen(('sensitivity', text, i))
            if other == base:
                chk.violation({'why': 'a literal of an accepted formula does not reach the generated class: part of the formula is silently ignored', 'formula': text,
                               'changed_token': parts[i], 'variant': f2, 'stream': 'sensitivity-law'})


def split_texts(formula):
    """source text of each token, using the real lexer's own progress"""
    from excel2pycl.src.lexer import Lexer
    Cell = realcode.mods()['Cell']
    out, rest = [], formula
    while rest.strip():
        rest = rest.lstrip()
        for tc in Lexer.TOKENS:
            try:
                tok, sub = tc.get(rest, Cell(0, 0, 0))
            except Exception:  # noqa: the catch-all class raises; what is left is returned as one piece
                out.append(rest)
                return out
            if tok is not None and type(tok).__name__ != 'WhitespaceToken':
                out.append(rest[:len(rest) - len(sub)])
                rest = sub
                break
        else:
            break
    return out


def replay(path):
    data = json.load(open(path))
    for case in data.get('failing_inputs', [])[:20]:
        print('replay case:', json.dumps(case, ensure_ascii=False, default=str)[:800])
    return 1 if data.get('failing_inputs') else 0
