"""C02 — every reference form denotes exactly the intended cells of the intended sheet."""
from __future__ import annotations

import json
import re

from .. import core, realcode
from .execmodel_shim import col_letters
from . import lexmodel

TITLE_POOL = ['Data', 'Sheet 2', "it's", 'A1', 'SUM', 'Лист', '1st', 'x!y', 'IF', 'TRUE', 'a.b', 'a-b', "''", 'a,b', 'a(b)', 'a"b', 'B2:C3', "o'", 'Σ data', '2024', ' Data', 'Data ', ' a b ']


def planted(s, c, r):
    return (s + 1) * 10000000000 + (c + 1) * 100000 + (r + 1)


class RBook:
    def __init__(self, rng, wide=False):
        self.rng = rng
        self.ns = rng.randint(2, 5)
        self.titles = rng.sample(TITLE_POOL, self.ns)
        self.w = [rng.randint(1, 6) for _ in range(self.ns)]
        self.h = [rng.randint(1, 12) for _ in range(self.ns)]        # rows 9 -> 10 -> 11: areas whose corner rows differ in their number of digits
        if wide:
            k = rng.randrange(1, self.ns)
            self.w[k] = rng.choice([27, 53, 703, 16384])
            self.h[k] = rng.randint(1, 3)
        self.holes = set()
        self.empty_rows = [set() for _ in range(self.ns)]        # rows with nothing at all in them (no formula is placed there either)
        for s in range(self.ns):
            for _ in range(rng.randint(0, 3)):
                self.holes.add((s, rng.randrange(self.w[s]), rng.randrange(self.h[s])))
            if self.h[s] >= 3 and rng.random() < 0.5:
                for r in rng.sample(range(self.h[s] - 1), rng.randint(1, 2)):
                    self.empty_rows[s].add(r)
                    for c in range(self.w[s]):
                        self.holes.add((s, c, r))
        self.formulas = []          # (sheet, text)

    def value(self, s, c, r):
        if 0 <= c < self.w[s] and 0 <= r < self.h[s] and (s, c, r) not in self.holes:
            return planted(s, c, r)
        return None

    def sheets(self, omit=()):
        """formulas of sheet s sit in a far column (index 40 + w) of that sheet, one per row from row 1: unprefixed references see the planted cells of
        their own sheet, and no generated reference ever touches a formula cell"""
        out, self.fpos = [], {}
        self.total_rows = []
        for s in range(self.ns):
            mine = [i for i, (fs, _) in enumerate(self.formulas) if fs == s]
            fc = 40 + self.w[s]
            frows = [r for r in range(len(mine) + len(self.empty_rows[s]) + 1) if r not in self.empty_rows[s]][:len(mine)]
            nrows = max([self.h[s]] + [r + 1 for r in frows])
            width = fc + 1 if mine else self.w[s]
            rows = [[self.value(s, c, r) for c in range(self.w[s])] + [None] * (width - self.w[s]) for r in range(nrows)]
            for k, i in zip(frows, mine):
                rows[k][fc] = None if i in omit else self.formulas[i][1]
                self.fpos[i] = (s, fc, k)
            out.append((self.titles[s], rows))
            self.total_rows.append(nrows)
        return out

    def prefix(self, s, own):
        rng = self.rng
        t = self.titles[s]
        if s == own and rng.random() < 0.5:
            return ''
        if re.fullmatch(r'\w+', t) and rng.random() < 0.5:
            return t + '!'
        return "'" + t.replace("'", "''") + "'!"

    def cellref(self, c, r):
        rng = self.rng
        d = lambda: '$' if rng.random() < 0.3 else ''
        return '%s%s%s%d' % (d(), col_letters(c + 1), d(), r + 1)


def gen_case(book, rng):
    """-> (own sheet, formula text, kind, payload)"""
    own = rng.choice([k for k in range(book.ns) if book.w[k] <= 6])       # no formulas on the wide sheet
    s = rng.randrange(book.ns)
    W, H = book.w[s], book.h[s]
    pre = book.prefix(s, own)
    if pre == '':
        s = own
        W, H = book.w[s], book.h[s]
    k = rng.random()
    far_c = rng.choice([W, W + 1, 25, 26, 27, 51, 52, 701, 702, 703, 16383])
    far_r = rng.choice([H, H + 3, 99, 9999, 12344])
    if k < 0.25:
        c = rng.randrange(W) if rng.random() < 0.7 else far_c
        r = rng.randrange(H) if rng.random() < 0.7 else far_r
        return own, '=' + pre + book.cellref(c, r), 'cell', (s, c, r)
    if k < 0.8:
        c1 = rng.randrange(W)
        r1 = rng.randrange(H)
        shape = rng.choice(['row', 'col', 'rect', 'single', 'beyond'])
        c2 = c1 if shape in ('col', 'single') else rng.randrange(c1, W) if shape != 'beyond' else c1 + rng.randint(0, 3)
        r2 = r1 if shape in ('row', 'single') else rng.randrange(r1, H) if shape != 'beyond' else r1 + rng.randint(0, 4)
        text = pre + book.cellref(c1, r1) + ':' + book.cellref(c2, r2)
        wrap = rng.choice(['', '', 'SUM', 'COUNT', 'INDEX'])
        i, j = rng.randint(1, r2 - r1 + 1), rng.randint(1, c2 - c1 + 1)
        if wrap == 'INDEX':
            return own, '=INDEX(%s,%d,%d)' % (text, i, j), 'index', (s, c1, r1, c2, r2, i, j)
        if wrap:
            return own, '=%s(%s)' % (wrap, text), wrap.lower(), (s, c1, r1, c2, r2)
        return own, '=' + text, 'area', (s, c1, r1, c2, r2)
    if k < 0.92:
        c1 = rng.randrange(W)
        c2 = rng.randrange(c1, W)
        text = '%s%s:%s' % (pre, col_letters(c1 + 1), col_letters(c2 + 1))
        if rng.random() < 0.3:
            return own, '=INDEX(%s,1,%d)' % (text, c2 - c1 + 1), 'colindex', (s, c1, c2)
        return own, '=' + text, 'cols', (s, c1, c2)
    bad = rng.choice(['Nope', 'nope', book.titles[s] + 'x', book.titles[s].lower() + '_', 'Sheet9', '0', '1', '2', '7', '99', '01', str(s), '-1'])
    bad = bad if bad not in book.titles else bad + '9'
    pre = (bad + '!') if re.fullmatch(r'\w+', bad) and rng.random() < 0.5 else "'" + bad.replace("'", "''") + "'!"
    if rng.random() < 0.3:
        # a sheet that does not exist named on the second corner of an area: never resolved to some sheet
        t2 = bad                                     # only titles that do not exist: a grammar that accepted Sheet!A1:Sheet!B2 for an existing sheet would not be wrong
        p2 = (t2 + '!') if re.fullmatch(r'\w+', t2) else "'" + t2.replace("'", "''") + "'!"
        good = book.prefix(s, own)
        return own, '=' + rng.choice(['SUM(%sA1:%sA2)', '%sA1:%sB2']) % (good, p2), 'unknown', None
    return own, '=' + pre + rng.choice(['A1', 'A1:B2', '$A$1', 'A:A']), 'unknown', None


def run(tier, seed):
    chk = core.Check('C02', tier, seed)
    rng = chk.rng
    chk.rule = ('workbooks of 2-5 sheets (titles plain, spaced, with apostrophes / ! / quotes, non-ASCII, digit-leading, cell-like A1, keyword-like SUM/IF/TRUE, area-like; random '
                'order; one sheet up to 16384 columns wide) whose every cell holds a number encoding (sheet, column, row), with holes; formulas on every sheet: single cells, '
                'row / column / rectangular / single-cell areas, areas reaching beyond the used range, whole-column areas, all $ forms, bare / plain-title / quoted-title '
                'prefixes (apostrophes doubled), columns at 26-boundaries up to XFD, rows to 5 digits, wrapped in SUM / COUNT / INDEX; the same unprefixed text repeated on other sheets; unknown titles; every formula evaluated through three '
                'routes: class translated from its own cell, class of the whole workbook, whole-workbook class with 2-5 cells (holes and blank rows included) overridden; every fourth workbook also as a real .xlsx file read by Excel.parse (rows '
                'with no cell at all included). the three reference token classes on spellings and near misses (<class>.get vs the Lean scanners). Oracle: decode the '
                'planted numbers (Python) and the Lean model of fetch / get_matrix (same request). distinct = distinct (workbook, formula)')
    chk.assumptions += ['the three reference regexes are modelled by hand-written scanners (Model/Lex.lean) pinned to their regex sources (reference_regexes_pinned) and compared with '
                        '<class>.get on spellings and near misses; \\w \\d are modelled on ASCII + Cyrillic letters; the CellIdentifierRangeToken scanner is covered by Tie B only '
                        '(no read-back theorem: in Lexer.TOKENS order the matrix class shadows it)',
                        'reversed corners (B2:A1), 3-D references and defined names are outside the grammar and not generated']
    chk.build = core.lean_build(['C02'], tier)
    if not chk.build.driver_ok:
        raise RuntimeError('driver did not build:\n' + chk.build.log[-2000:])
    m = realcode.mods()
    Cell = m['Cell']
    nbooks = 30 if tier == 'quick' else 500
    per = 40
    cases = []
    for b in range(nbooks):
        book = RBook(rng, wide=(b % 4 == 3))
        plan = []
        seen = set()
        while len(plan) < per:
            own, text, kind, payload = gen_case(book, rng)
            if (own, text) in seen:
                continue
            seen.add((own, text))
            plan.append((own, text, kind, payload))
        # the same unprefixed text on another sheet denotes the cells of THAT sheet
        narrow = [k for k in range(book.ns) if book.w[k] <= 6]
        for own, text, kind, payload in list(plan):
            if kind in ('cell', 'area', 'sum', 'count', 'index', 'cols', 'colindex') and payload[0] == own and '!' not in text and len(narrow) > 1 and rng.random() < 0.35:
                other = rng.choice([k for k in narrow if k != own])
                if (other, text) not in seen:
                    seen.add((other, text))
                    plan.append((other, text, kind, (other,) + tuple(payload[1:])))
        book.formulas = [(own, text) for own, text, _, _ in plan]
        sheets = book.sheets()
        dims = []
        for s in range(book.ns):
            dims += [str(book.w[s]), str(book.total_rows[s])]
        # cells of the formula rows are not planted: tell the model they are holes (column 0 holds formula text, the rest blank)
        holes = set(book.holes)
        for s in range(book.ns):          # rows added below the data by the formula column are blank
            for r in range(book.h[s], book.total_rows[s]):
                for c in range(book.w[s]):
                    holes.add((s, c, r))
        head = [str(book.ns)] + dims + [str(len(holes))] + [str(x) for hh in sorted(holes) for x in hh]
        # three routes to the value of every formula: (a) the class translated from the formula's own cell, (b) the class of the whole
        # workbook (all formulas of all sheets translated together), (c) the whole-workbook class with some cells overridden
        try:
            # formulas naming a sheet that does not exist make the whole translation fail, as they must: they are left out here
            sheets_known = book.sheets(omit={i for i, p in enumerate(plan) if p[2] == 'unknown'})
            if max(book.w) > 1000:
                raise _Skip()       # the whole-workbook routes are skipped for the 16384-column sheet (tens of thousands of methods); the entry route covers it
            whole = realcode.executor_for(realcode.load_class(realcode.translate(sheets_known, None)))
            whole_err = None
        except _Skip:
            whole, whole_err = None, 'SKIPPED'
        except Exception as e:  # noqa
            whole, whole_err = None, 'E' + core.exc_class(e)
        over = {}
        for _ in range(rng.randint(2, 5)):
            s = rng.randrange(book.ns)
            if book.w[s] > 6:
                continue
            c, r = rng.randrange(book.w[s]), rng.randrange(book.total_rows[s])
            over[(s, c, r)] = 5 * 10 ** 15 + len(over) * 1000 + rng.randrange(1000)
        over_ex = None
        if whole is not None:
            over_ex = realcode.executor_for(realcode.load_class(realcode.translate(sheets_known, None)))
            # every formula is asked once BEFORE the overrides arrive (references that share cells, in plan order): nothing read now may outlive the overrides
            for pos0 in [book.fpos[i0] for i0 in range(len(plan))]:
                core.outcome(lambda: over_ex.get_cell(Cell(*pos0)).value)
            over_ex.set_cells([Cell(book.titles[s] if rng.random() < 0.5 else s, c, r, v) for (s, c, r), v in over.items()])
        file_ex = None
        if b % 4 == 1 and max(book.w) <= 1000 and not any(ch in t for t in book.titles for ch in '\\/*?:[]'):
            # the same workbook as a real .xlsx file read by Excel.parse (rows without any cell, ragged rows, openpyxl's own cell objects)
            import tempfile, shutil
            fd = tempfile.mkdtemp(prefix='e2p_c02_')
            try:
                ftext, _ = realcode.full_translate(sheets_known if whole is not None else book.sheets(omit={i for i, p in enumerate(plan) if p[2] == 'unknown'}), workdir=fd, safety=False)
                file_ex = realcode.executor_for(realcode.load_class(ftext))
                # a file has no trailing rows without cells: a sheet ends at its last row that holds anything
                fsheets = sheets_known if whole is not None else book.sheets(omit={i for i, p in enumerate(plan) if p[2] == 'unknown'})
                file_rows = [max([r + 1 for r, row in enumerate(rows) if any(v is not None for v in row)] or [0]) for _, rows in fsheets]
            except Exception as e:  # noqa
                chk.violation({'why': 'the workbook written as a real file does not translate', 'impl': 'E' + core.exc_class(e), 'titles': book.titles, 'stream': 'file-route'})
            finally:
                shutil.rmtree(fd, ignore_errors=True)
        for i, (own, text, kind, payload) in enumerate(plan):
            pos = book.fpos[i]

            def evaluate():
                cls = realcode.load_class(realcode.translate(sheets, entry=pos))
                return realcode.executor_for(cls).get_cell(Cell(*pos)).value
            routes = [('entry', core.outcome(evaluate), book.value)]
            if whole is not None and kind != 'unknown':
                routes.append(('whole', core.outcome(lambda: whole.get_cell(Cell(*pos)).value), book.value))
                routes.append(('override', core.outcome(lambda: over_ex.get_cell(Cell(*pos)).value),
                               lambda s, c, r: over.get((s, c, r), book.value(s, c, r))))
            elif kind != 'unknown':
                if i == 0 and whole_err != 'SKIPPED':
                    chk.violation({'why': 'the whole workbook does not translate although every formula translates on its own', 'impl': whole_err, 'titles': book.titles,
                                   'stream': 'whole-workbook'})
            if file_ex is not None and kind != 'unknown':
                routes.append(('file', core.outcome(lambda: file_ex.get_cell(Cell(*pos)).value), book.value))
            for route, got, valuefn in routes:
                chk.count('kind:' + kind)
                chk.count('route:' + route)
                meta = {'formula': text, 'on_sheet': book.titles[own], 'titles': book.titles, 'kind': kind, 'route': route}
                if route == 'override':
                    meta['overrides'] = {'%s!%s%d' % (book.titles[s], col_letters(c + 1), r + 1): v for (s, c, r), v in over.items()}
                if kind == 'unknown':
                    chk.seen((b, own, text, route))
                    if not (got.startswith('E') and got[1:] in ('Cell', 'Parser')):
                        chk.violation(dict(meta, why='a reference to a sheet title that does not exist is not rejected', impl=got, stream='unknown-title'))
                    continue
                model_ok = route in ('entry', 'whole')          # the Lean request describes the workbook as stored in memory
                blank = lambda v: BLANK if v is None else v
                if kind == 'cell':
                    s, c, r = payload
                    if model_ok:
                        cases.append(('rf ' + ' '.join(head + ['cell', str(s), str(c), str(r)]), got, meta))
                    v = valuefn(s, c, r)
                    want = 'B' if v is None else 'I%d' % v
                    if got != want:
                        chk.violation(dict(meta, why='a cell reference does not evaluate to the current value of the cell at those coordinates on that sheet', impl=got, want=want,
                                           stream='oracle'))
                elif kind == 'area':
                    s, c1, r1, c2, r2 = payload
                    if model_ok:
                        cases.append(('rf ' + ' '.join(head + ['mx'] + [str(x) for x in payload]), got, meta))
                    want = core.enc([[blank(valuefn(s, c, r)) for c in range(c1, c2 + 1)] for r in range(r1, r2 + 1)])
                    if got != want:
                        chk.violation(dict(meta, why='an area does not evaluate to exactly its coordinates in row-major order', impl=got[:300], want=want[:300], stream='oracle'))
                elif kind in ('sum', 'count', 'index'):
                    s, c1, r1, c2, r2 = payload[:5]
                    vals = [[valuefn(s, c, r) for c in range(c1, c2 + 1)] for r in range(r1, r2 + 1)]
                    flat = [v for row in vals for v in row if v is not None]
                    if kind == 'sum':
                        want = 'I%d' % sum(flat)
                    elif kind == 'count':
                        want = 'I%d' % len(flat)
                    else:
                        v = vals[payload[5] - 1][payload[6] - 1]
                        want = 'B' if v is None else 'I%d' % v
                    chk.seen((b, own, text, route))
                    if got != want:
                        chk.violation(dict(meta, why='%s over an area does not see exactly the cells of the area' % kind.upper(), impl=got, want=want, stream='oracle'))
                elif kind in ('cols', 'colindex'):
                    s, c1, c2 = payload
                    if kind == 'cols':
                        if model_ok:
                            cases.append(('rf ' + ' '.join(head + ['cols', str(s), str(c1), str(c2)]), got, meta))
                        else:
                            nrows_here = file_rows[s] if route == 'file' else book.total_rows[s]
                            want = core.enc([[blank(valuefn(s, c, r)) for c in range(c1, c2 + 1)] for r in range(nrows_here)])
                            chk.seen((b, own, text, route))
                            if got != want:
                                chk.violation(dict(meta, why='a whole-column area does not evaluate to the current values of its columns', impl=got[:300], want=want[:300],
                                                   stream='oracle'))
                    else:
                        v = valuefn(s, c2, 0)
                        want = 'B' if v is None else 'I%d' % v
                        chk.seen((b, own, text, route))
                        if got != want:
                            chk.violation(dict(meta, why='INDEX over a whole-column area does not address row 1 of the last column', impl=got, want=want, stream='oracle'))
    chk.judge('references', cases, sample_cap=4)
    text_cells_law(chk)
    core.import_repo()
    lexmodel.run_ref_scanners(chk, tier)
    externals(chk)
    return chk.finish()


def text_cells_law(chk):
    """a referenced cell that holds a TEXT which merely looks like a formula (blanks before the =) is read as that text: the reference denotes the cell's value, nothing is
    evaluated in its place"""
    # a whole-column area as the sum range of SUMIF next to a criteria range that starts lower: the column is taken from its first row
    srows = [[5, None, 100], [1, None, 200], [-1, None, 300], [2, None, 400], ['=SUMIF(A2:A4,">0",C:C)', '=SUMIF(A2:A4,">0",C1:C3)', "=SUMIF(A2:A4,\">0\",'S'!C:C)"]]
    try:
        exs = realcode.executor_for(realcode.load_class(realcode.translate([('S', srows)])))
        outs = [core.outcome(lambda c=c: exs.get_cell(realcode.mods()['Cell'](0, c, 4)).value) for c in range(3)]
        chk.count('law:whole-column-target')
        if len(set(outs)) != 1 or outs[0] != 'I400':
            chk.violation({'why': 'a whole-column area used as the SUMIF target does not denote the column from its first row (it is C1:C3 next to A2:A4)', 'formulas': srows[4],
                           'impl': outs, 'want': 'I400', 'stream': 'whole-column-target'})
    except Exception as e:  # noqa
        chk.violation({'why': 'SUMIF with a whole-column target does not translate', 'impl': 'E' + core.exc_class(e), 'stream': 'whole-column-target'})
    rows = [[' =B1', 5, '=A1&"|"', '=SUM(A1:B1)'],
            ['\t=B1*2', 7, '=A2&"|"', '=COUNT(A1:A3)'],
            ['  =Other!A1 ', 9, '=A3&"|"', '=INDEX(A1:B3,3,1)'],
            ["'=B1", 1, '=A4&"|"', '=SUM(A:A)']]
    sheets = [('Main', rows), ('Other', [[100]])]
    want = {(2, 0): core.enc(' =B1|'), (3, 0): 'I5', (2, 1): core.enc('\t=B1*2|'), (3, 1): 'I0', (2, 2): core.enc('  =Other!A1 |'), (3, 2): core.enc('  =Other!A1 '),
            (2, 3): core.enc("'=B1|"), (3, 3): 'I0', (0, 0): core.enc(' =B1'), (0, 1): core.enc('\t=B1*2'), (0, 2): core.enc('  =Other!A1 ')}
    Cell = realcode.mods()['Cell']
    try:
        ex = realcode.executor_for(realcode.load_class(realcode.translate(sheets)))
    except Exception as e:  # noqa
        chk.violation({'why': 'a workbook with texts that look like formulas after leading blanks does not translate', 'impl': 'E' + core.exc_class(e), 'stream': 'text-cells'})
        return
    for (c, r), w in want.items():
        got = core.outcome(lambda: ex.get_cell(Cell(0, c, r)).value)
        chk.count('law:text-cells')
        chk.seen(('textcell', c, r))
        if got != w:
            chk.violation({'why': 'a reference to a text cell that looks like a formula does not give the text', 'cell': (c, r), 'content': repr(rows[r][c]), 'impl': got, 'want': w,
                           'stream': 'text-cells'})


class _Skip(Exception):
    pass


class _Blank:
    pass


_Blank.__name__ = 'EmptyCell'
BLANK = _Blank()


def externals(chk):
    """uid text vs the Lean model; the method names of a generated class are the uids of its cells"""
    m = realcode.mods()
    cases = []
    for s, c, r in [(0, 0, 0), (1, 25, 9), (12, 16383, 1048575), (3, 702, 99), (10, 1, 11), (1, 0, 111), (11, 1, 1)]:
        cases.append(('rf 0 0 uid %d %d %d' % (s, c, r), core.enc(m['Cell'](s, c, r).uid), {'uid': (s, c, r)}))
    chk.judge('uid', cases, sample_cap=1)


def replay(path):
    data = json.load(open(path))
    for case in data.get('failing_inputs', [])[:20]:
        print('replay case:', json.dumps(case, ensure_ascii=False, default=str)[:800])
    return 1 if data.get('failing_inputs') else 0
