"""Shared generator / runner for the executor state machine (C04, C08): workbooks of formula chains, histories of
set_cells / get_cell / get_cells / get_sheet calls with every addressing style, the real Executor in-process and the
request line for the Lean driver (`ex …`)."""
from __future__ import annotations

from . import core, realcode

UID_BASE = 100000
TITLES = ['S0', 'Data', 'T_2']
# titles of the current workbook are drawn from these; digit-only titles must be addressed as titles, never as sheet numbers
TITLE_SETS = [['S0', 'Data', 'T_2'], ['S0', 'Data', 'T_2'], ['1', '0', '2024'], ['2', 'Data', '0'], ['A1', 'SUM', '7']]
LETTERS = 'ABCDEFGHIJKLMNOPQRSTUVWXYZ'


def code(s, c, r):
    return (s * UID_BASE + c) * UID_BASE + r


class Book:
    def __init__(self, rng, failing=True):
        self.rng = rng
        chosen = list(rng.choice(TITLE_SETS))
        if rng.random() < 0.5:
            rng.shuffle(chosen)                 # the same titles at other positions than in an earlier workbook of this process: a title means the sheet of THIS workbook
        TITLES[:] = chosen                      # in place: the module-level list is what formulas and addressing read (one workbook at a time)
        self.ns = rng.randint(1, 3)
        self.w = [rng.randint(2, 4) for _ in range(self.ns)]
        self.h = [rng.randint(2, 5) for _ in range(self.ns)]
        self.cells = {}     # (s,c,r) -> ('const', value) | ('formula', text, tokens)
        done = []
        for s in range(self.ns):
            for r in range(self.h[s]):
                for c in range(self.w[s]):
                    k = rng.random()
                    if k < 0.2:
                        pass        # blank
                    elif k < 0.5 or not done:
                        self.cells[(s, c, r)] = ('const', rng.choice([0, 1, 2, 3, 5, 7, 10, -4, 2.5, 0.5, 'txt', True, False]))
                    else:
                        self.cells[(s, c, r)] = self.formula(s, done, failing)
                    done.append((s, c, r))

    def ref(self, s, target):
        ts, tc, tr = target
        pre = '' if ts == s else TITLES[ts] + '!'
        return '%s%s%d' % (pre, LETTERS[tc], tr + 1), ['ref', str(code(ts, tc, tr))]

    def operand(self, s, done):
        rng = self.rng
        k = rng.random()
        if k < 0.25:
            v = rng.choice([0, 1, 2, 3, 10])
            return str(v), ['lit', 'I%d' % v]
        if k < 0.35:      # beyond the used range / never written: reads as blank
            ts = rng.randrange(self.ns)
            return self.ref(s, (ts, self.w[ts] + rng.randint(0, 1), self.h[ts] + rng.randint(0, 2)))
        return self.ref(s, rng.choice(done))

    def formula(self, s, done, failing):
        rng = self.rng
        a, b, c = self.operand(s, done), self.operand(s, done), self.operand(s, done)
        forms = ['ref', 'add', 'add', 'mul', 'sum', 'if3', 'iferr', 'div', 'area', 'area']
        if failing:
            forms += ['fail']
        f = rng.choice(forms)
        if f == 'ref':
            t, toks = self.ref(s, rng.choice(done))
            return ('formula', '=' + t, toks)
        if f == 'fail':
            return ('formula', '=(1/0)', ['div', 'lit', 'I1', 'lit', 'I0'])
        if f == 'area':
            # SUM over a rectangle of already placed cells, possibly reaching beyond the used range (blank cells, overridable)
            ts = rng.randrange(self.ns)
            cand = [p for p in done if p[0] == ts]
            if cand:
                a0 = rng.choice(cand)
                c2 = a0[1] + rng.randint(0, 2)
                r2 = a0[2] + rng.randint(0, 2)
                cells = [(ts, c, r) for r in range(a0[2], r2 + 1) for c in range(a0[1], c2 + 1)]
                if all((p in done) or p[1] >= self.w[ts] or p[2] >= self.h[ts] for p in cells):
                    pre = '' if ts == s else TITLES[ts] + '!'
                    text = '=SUM(%s%s%d:%s%d)' % (pre, LETTERS[a0[1]], a0[2] + 1, LETTERS[c2], r2 + 1)
                    toks = ['lit', 'I0']
                    for p in reversed(cells):       # SUM over the area = nested two-argument sums (text, booleans, blanks ignored)
                        toks = ['sum', 'ref', str(code(*p))] + toks
                    return ('formula', text, toks)
        if f == 'add':
            return ('formula', '=(%s+%s)' % (a[0], b[0]), ['add'] + a[1] + b[1])
        if f == 'mul':
            return ('formula', '=(%s*%s)' % (a[0], b[0]), ['mul'] + a[1] + b[1])
        if f == 'div':
            # denominators 1, 2, 4 keep every value dyadic (sums stay exact in every summation algorithm); 0 is the failing cell
            d = rng.choice([1, 2, 4, 2, 0])
            return ('formula', '=(%s/%d)' % (a[0], d), ['div'] + a[1] + ['lit', 'I%d' % d])
        if f == 'sum':
            return ('formula', '=SUM(%s,%s)' % (a[0], b[0]), ['sum'] + a[1] + b[1])
        if f == 'if3':
            return ('formula', '=IF(%s,%s,%s)' % (a[0], b[0], c[0]), ['if3'] + a[1] + b[1] + c[1])
        return ('formula', '=IFERROR(%s,%s)' % (a[0], b[0]), ['iferr'] + a[1] + b[1])

    def sheets(self, edits=None):
        """rows for realcode.translate; `edits`: {(s,c,r): value} applied as constants (the edited workbook)"""
        edits = edits or {}
        W, H = list(self.w), list(self.h)
        for (s, c, r) in edits:
            W[s], H[s] = max(W[s], c + 1), max(H[s], r + 1)
        out = []
        for s in range(self.ns):
            rows = [[None] * W[s] for _ in range(H[s])]
            for (ss, c, r), cell in self.cells.items():
                if ss == s:
                    rows[r][c] = cell[1]
            for (ss, c, r), v in edits.items():
                if ss == s:
                    rows[r][c] = v
            out.append((TITLES[s], rows))
        return out

    def request_prefix(self, fuel=400):
        parts = ['ex', str(fuel), str(self.ns)]
        for s in range(self.ns):
            parts += [str(self.w[s]), str(self.h[s])]
        parts.append(str(len(self.cells)))
        for (s, c, r), cell in self.cells.items():
            parts.append(str(code(s, c, r)))
            if cell[0] == 'const':
                parts += ['lit', core.enc(cell[1])]
            else:
                parts += cell[2]
        return parts


def gen_target(book, rng):
    s = rng.randrange(book.ns)
    k = rng.random()
    if k < 0.75:
        return s, rng.randrange(book.w[s]), rng.randrange(book.h[s])
    return s, rng.randrange(book.w[s] + 3), rng.randrange(book.h[s] + 3)


def gen_ops(book, rng, n, p_set=0.4):
    """-> list of ops: ('set', [((s,c,r), value, style)]) | ('get', (s,c,r), style) | ('gets', [((s,c,r), style)]) | ('sheet', s, by_title)"""
    ops = []
    pool = [gen_target(book, rng) for _ in range(6)]      # repeated cells on purpose
    pick = lambda: rng.choice(pool) if rng.random() < 0.7 else gen_target(book, rng)
    style = lambda: rng.choice(['num', 'a1', 'named'])
    val = lambda: rng.choice([0, 1, 4, 9, 11, 20, -3, 2.5, 0.25, 'ov', '', True, False, 1.0, 0.0, None,
                              1 + 2.0 ** -40, 0.5 + 2.0 ** -44])      # dyadic (sums stay exact) with more than 15 significant digits (an override is never rounded)
    twins = {1: [True, 1.0], True: [1, 1.0], 0: [False, 0.0], False: [0, 0.0]}
    last = {}

    def write():
        t = pick()
        v = val()
        # values that are equal in Python but distinct for Excel (1 / TRUE / 1.0, 0 / FALSE / 0.0): a later write must still win
        if t in last and type(last[t]) in (int, bool, float) and last[t] in twins and rng.random() < 0.4:
            v = rng.choice([x for x in twins[last[t]] if type(x) is not type(last[t])])
        last[t] = v
        return t, v, style()
    def bad_address():
        # what handle_cell rejects: a sheet title that does not exist, column letters that are none, a row that is no number / below 1
        k = rng.randrange(7)
        s = rng.randrange(book.ns)
        # ... or a sheet NUMBER the workbook does not have
        return [('No such sheet', 0, 0), ('No such sheet', 'A', '1'), (TITLES[s], 'A1', '1'), (TITLES[s], 'B', '0'), (TITLES[s], 'c', 'x'), (book.ns + rng.randint(0, 3), 0, 0), (-1 - rng.randint(0, 2), 1, 1)][k]
    for _ in range(n):
        k = rng.random()
        if k < p_set * 0.12:
            # a batch that is REJECTED: valid cells (now and then far outside the used range), then an address that does not resolve, then perhaps more
            good = [write() for _ in range(rng.randint(0, 3))]
            if rng.random() < 0.5:
                s0 = rng.randrange(book.ns)
                good.append(((s0, book.w[s0] + rng.randint(1, 4), book.h[s0] + rng.randint(1, 4)), 77, 'num'))
            for t, _, _ in good:
                last.pop(t, None)
            pos = rng.randint(0, len(good)) if rng.random() < 0.4 else len(good)
            ops.append(('rej', good[:pos], bad_address(), good[pos:]))
        elif k < p_set:
            # an empty batch now and then: it changes nothing and, in particular, does not cancel an earlier batch that has not been replayed yet
            ops.append(('set', [write() for _ in range(rng.randint(1, 4))] if rng.random() < 0.85 else []))
        elif k < p_set + (1 - p_set) * 0.55:
            ops.append(('get', pick(), style()))
        elif k < p_set + (1 - p_set) * 0.85:
            ops.append(('gets', [(pick(), style()) for _ in range(rng.randint(1, 4))]))
        else:
            ops.append(('sheet', rng.randrange(book.ns), rng.random() < 0.5))
    return ops


def mk_cell(Cell, target, st, value=None):
    s, c, r = target
    if st == 'a1':
        return Cell(TITLES[s], col_letters(c + 1), str(r + 1), value)
    if st == 'named':
        return Cell(TITLES[s], c, r, value)
    return Cell(s, c, r, value)


def col_letters(n):
    out = ''
    while n:
        n, k = divmod(n - 1, 26)
        out = LETTERS[k] + out
    return out


def ops_request(ops):
    parts = [str(len(ops))]
    for op in ops:
        if op[0] == 'set':
            parts += ['set', str(len(op[1]))]
            for (s, c, r), v, _ in op[1]:
                parts += [str(s), str(c), str(r), 'B' if v is None else core.enc(v)]       # an override without a value makes the cell blank
        elif op[0] == 'rej':
            parts += ['rej']
        elif op[0] == 'get':
            parts += ['get'] + [str(x) for x in op[1]]
        elif op[0] == 'gets':
            parts += ['gets', str(len(op[1]))]
            for t, _ in op[1]:
                parts += [str(x) for x in t]
        else:
            parts += ['sheet', str(op[1])]
    return parts


_RUNS = [0]


def run_real(cls, ops, observer=None):
    """drive the real Executor; -> list of canonical outputs (same encoding as the driver's encOut).
    Every second run the caller's Cell objects are REUSED: a small pool of Cell objects is re-pointed (numeric coordinates) and passed again, as a caller
    walking down a column with one object would do - what was passed earlier must not change with it."""
    m = realcode.mods()
    RealCell = m['Cell']
    _RUNS[0] += 1
    reuse = _RUNS[0] % 2 == 0
    pool = [RealCell(0, 0, 0) for _ in range(6)]
    turn = [0]

    def Cell(title, column, row, value=None):
        if not reuse or not all(type(x) is int for x in (title, column, row)):
            return RealCell(title, column, row, value)
        c = pool[turn[0] % len(pool)]
        turn[0] += 1
        c.title, c.column, c.row, c.value = title, column, row, value
        return c
    ex = realcode.executor_for(cls)
    outs = []
    kept = {}       # reuse mode: the caller keeps the Cell object it asked with (whatever its spelling) and asks with the very same object again

    def QCell(title, column, row, value=None):
        if not reuse or all(type(x) is int for x in (title, column, row)):
            return Cell(title, column, row, value)
        key = (title, column, row)
        if key not in kept:
            kept[key] = RealCell(title, column, row)
        return kept[key]
    for i, op in enumerate(ops):
        try:
            if op[0] == 'set':
                ex.set_cells([mk_cell(Cell, t, st, v) for t, v, st in op[1]])
                outs.append('-')
            elif op[0] == 'rej':
                batch = [mk_cell(Cell, t, st, v) for t, v, st in op[1]] + [RealCell(op[2][0], op[2][1], op[2][2], 5)] + [mk_cell(Cell, t, st, v) for t, v, st in op[3]]
                ex.set_cells(batch)
                outs.append('ACCEPTED')         # the call did not raise
            elif op[0] == 'get':
                outs.append(core.enc(ex.get_cell(mk_cell(QCell, op[1], op[2])).value))
            elif op[0] == 'gets':
                cells = ex.get_cells([mk_cell(Cell, t, st) for t, st in op[1]])
                outs.append('V%d ' % len(cells) + ' '.join(core.enc(c.value) for c in cells))
            else:
                g = ex.get_sheet(TITLES[op[1]] if op[2] else op[1])
                outs.append('G%dx%d ' % (len(g), len(g[0]) if g else 0) + ' '.join(core.enc(c.value) for row in g for c in row))
        except core.Unencodable:
            outs.append('EUnencodable')
        except RecursionError:
            outs.append('ERecursionError')
        except Exception as e:  # noqa
            outs.append('E' + core.exc_class(e))
        if observer:
            observer(i, op, ex)
    return outs, ex


def last_writes(ops):
    lw = {}
    for op in ops:
        if op[0] == 'set':
            for t, v, _ in op[1]:
                lw[t] = v
    return lw
