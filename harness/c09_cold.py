"""Cold-start worker of the C09 check: the very first translations of a fresh process are made by several threads at once (the
lazily initialised token tables are built while other threads already parse).  argv: repo, paths…; prints `<file> whole <sha|E…> thread=<i>`."""
import hashlib
import os
import sys
import threading
import warnings

sys.path.insert(0, sys.argv[1])
sys.path.insert(0, os.path.dirname(os.path.dirname(os.path.abspath(__file__))))
warnings.filterwarnings('ignore')
from excel2pycl import Parser  # noqa: E402

paths = sys.argv[2:]
out = []
barrier = threading.Barrier(4)


def work(i):
    barrier.wait()
    for p in paths[i % len(paths):] + paths[:i % len(paths)]:
        try:
            h = hashlib.sha256(Parser().set_excel_file_path(p).disable_safety_check().get_translation().encode('utf-8')).hexdigest()
        except Exception as e:  # noqa
            h = 'E' + type(e).__name__
        out.append('%s whole-unsafe %s thread=%d' % (os.path.basename(p), h, i))


sys.setswitchinterval(1e-6)
ts = [threading.Thread(target=work, args=(i,)) for i in range(4)]
[t.start() for t in ts]
[t.join() for t in ts]
print('\n'.join(out))
