"""Cold-start worker of the C09 check: the very first translations of a fresh process are made by several threads at once (the
lazily initialised token tables are built while other threads already parse).  argv: repo, paths…; prints `<file> whole <sha|E…> thread=<i>`."""
import hashlib
import os
import sys
import threading
import warnings

sys.path.insert(0, sys.argv[1])
sys.path.insert(0, os.path.dirname(os.path.dirname(os.path.abspath(__file__))))
warnings.filterwarnings('ignore')
from excel2pycl import Parser  # noqa: E402

paths = sys.argv[2:]
out = []
barrier = threading.Barrier(4)


def work(i):
    barrier.wait()
    for p in paths[i % len(paths):] + paths[:i % len(paths)]:
        try:
            h = hashlib.sha256(Parser().set_excel_file_path(p).disable_safety_check().get_translation().encode('utf-8')).hexdigest()
        except Exception as e:  # noqa
            h = 'E' + type(e).__name__
        out.append('%s whole-unsafe %s thread=%d' % (os.path.basename(p), h, i))


def tracer(frame, event, arg):
    # give the other threads a turn at every line of the token modules (where the lazily initialised tables are built)
    if 'excel2pycl/src/tokens' not in frame.f_code.co_filename and 'excel2pycl/src/lexer' not in frame.f_code.co_filename:
        return None

    def local(frame, event, arg):
        if event == 'line':
            time.sleep(0)
        return local
    return local


import time  # noqa: E402
sys.setswitchinterval(1e-6)
if os.environ.get('E2P_COLD_TRACE') == '1':
    threading.settrace(tracer)
ts = [threading.Thread(target=work, args=(i,)) for i in range(4)]
[t.start() for t in ts]
[t.join() for t in ts]
print('\n'.join(out))
