"""In-process adapters around the repository's real code (working tree)."""
from __future__ import annotations

import os
import tempfile

from . import core

_cache = {}


def mods():
    if 'm' not in _cache:
        core.import_repo()
        from excel2pycl.src.excel import Excel
        from excel2pycl.src.context import Context
        from excel2pycl.src.cell import Cell
        from excel2pycl.src.translators import CellTranslator
        from excel2pycl import Parser, Executor
        _cache['m'] = dict(Excel=Excel, Context=Context, Cell=Cell, CellTranslator=CellTranslator,
                           Parser=Parser, Executor=Executor)
    return _cache['m']


def make_excel(sheets):
    """sheets: list of (title, rows) with rows a list of lists of cell values (None = blank).
    Mirrors what Excel.parse builds, minus openpyxl file I/O (fast path)."""
    m = mods()
    data, titles, sizes = [], [], []
    for title, rows in sheets:
        titles.append(title)
        data.append([list(r) for r in rows])
        sizes.append({'last_column': max([len(r) for r in rows] or [0]), 'last_row': len(rows)})
    return m['Excel']({'data': data, 'titles': titles, 'suspicious_cells': {}, 'sheets_size': sizes})


def translate(sheets, entry=None):
    """Class text for the workbook (whole file, or from entry = (title, col, row)) through the real Parser facade: everything
    Parser._translate does (safety gate, translation, conversion of RecursionError, the check that the result compiles) runs;
    only Excel.parse (openpyxl file reading) is replaced by the in-memory workbook."""
    m = mods()
    excel = make_excel(sheets)
    Excel = m['Excel']
    orig = Excel.__dict__['parse']
    Excel.parse = classmethod(lambda cls, path: excel)
    try:
        p = m['Parser']().set_excel_file_path('<memory>')
        if entry is not None:
            p.set_entrypoint_cell(m['Cell'](*entry))
        return p.get_translation()
    finally:
        Excel.parse = orig


class ReusedParser:
    """One long-lived Parser translating workbook after workbook (in memory); the entry cell is set again only when it differs from
    the one set before, so the parser keeps working with the Cell object it was given for an earlier workbook."""

    def __init__(self):
        self.p = mods()['Parser']()
        self.entry = None
        self.n = 0

    def translate(self, sheets, entry):
        m = mods()
        excel = make_excel(sheets)
        Excel = m['Excel']
        orig = Excel.__dict__['parse']
        Excel.parse = classmethod(lambda cls, path: excel)
        try:
            self.n += 1
            self.p.set_excel_file_path('<memory>')          # always the same path: the workbook behind it is what changes
            if entry != self.entry:
                self.p.set_entrypoint_cell(m['Cell'](*entry))
                self.entry = entry
            self._excel = excel
            return self.p.get_translation()
        finally:
            Excel.parse = orig

    def ask_again(self):
        """get_translation() once more, nothing changed in between"""
        m = mods()
        Excel = m['Excel']
        orig = Excel.__dict__['parse']
        excel = self._excel
        Excel.parse = classmethod(lambda cls, path: excel)
        try:
            return self.p.get_translation()
        finally:
            Excel.parse = orig


def translate_direct(sheets, entry=None):
    """CellTranslator + Context without the facade (no compile check, no conversion of RecursionError)."""
    m = mods()
    excel = make_excel(sheets)
    ctx = m['Context']()
    ctx._titles = excel.get_titles()
    ctx._sheets_size = excel.get_sheets_size()
    if entry is None:
        m['CellTranslator'].translate_file(excel, ctx)
    else:
        m['CellTranslator'].translate(m['Cell'](*entry), excel, ctx)
    return ctx.build_class()


def load_class(text):
    ns = {}
    exec(compile(text, '<generated>', 'exec'), ns)
    return ns['ExcelInPython']


def executor_for(cls):
    return mods()['Executor']().set_executed_class(class_object=cls)


def runtime_instance():
    """An instance of a freshly generated class (empty workbook): direct access to the helpers."""
    if 'rt' not in _cache:
        cls = load_class(translate([('S', [])]))
        _cache['rt'] = cls()
    return _cache['rt']


def abstract_instance():
    if 'abs' not in _cache:
        core.import_repo()
        from excel2pycl.src.utilities.abstract_excel_in_python_class import AbstractExcelInPython
        _cache['abs'] = AbstractExcelInPython()
    return _cache['abs']


def write_xlsx(path, sheets, chartsheets=()):
    """Full path: a real .xlsx via openpyxl. sheets as in make_excel (None cells are skipped).
    chartsheets: (position among all tabs, title) of chart sheets to insert - tabs that are not worksheets."""
    from openpyxl import Workbook
    wb = Workbook()
    wb.remove(wb.active)
    for title, rows in sheets:
        ws = wb.create_sheet(title)
        for r, row in enumerate(rows, 1):
            for c, v in enumerate(row, 1):
                if v is not None:
                    ws.cell(row=r, column=c, value=v)
    for index, title in chartsheets:
        from openpyxl.chart import BarChart
        cs = wb.create_chartsheet(title, index)
        cs.add_chart(BarChart())
    wb.save(path)


def full_translate(sheets, entry=None, safety=True, workdir=None):
    """Full path through Parser: returns (class text, path of written file)."""
    m = mods()
    d = workdir or tempfile.mkdtemp(prefix='e2p_')
    x = os.path.join(d, 'wb.xlsx')
    write_xlsx(x, sheets)
    p = m['Parser']().set_excel_file_path(x)
    if not safety:
        p.disable_safety_check()
    if entry is not None:
        p.set_entrypoint_cell(m['Cell'](*entry))
    out = os.path.join(d, 'out.py')
    p.write_translation(out)
    return open(out, encoding='utf-8').read(), out


def eval_formulas(formulas, values=None, overrides=None, extra_sheets=None, min_rows=0, min_fcol=0):
    """Evaluate a batch of formulas end-to-end (fast path).

    Sheet 'S': row 1.. of column A.. hold `values` (dict (col,row)->value, 0-based); the formulas are
    placed in a far column block.  Returns list of canonical outcomes, one per formula (translation
    errors are per-formula: each formula is translated from its own entry cell).
    """
    m = mods()
    values = values or {}
    nrows = max([r for (_, r) in values] + [len(formulas) - 1, min_rows - 1]) + 1 if (values or formulas or min_rows) else 0
    fcol = max(max([c for (c, _) in values] + [-1]) + 2, min_fcol)       # min_fcol: keep the formulas clear of every column the formulas may refer to
    rows = [[None] * (fcol + 1) for _ in range(nrows)]
    for (c, r), v in values.items():
        rows[r][c] = v
    for i, f in enumerate(formulas):
        rows[i][fcol] = f
    sheets = [('S', rows)] + list(extra_sheets or [])
    outs = []
    # one translation for all formulas; fall back to per-formula on failure
    try:
        cls = load_class(translate(sheets))
        ex = executor_for(cls)
        if overrides:
            for i in range(len(formulas)):          # everything is asked once before the overrides arrive: nothing computed now may survive them
                core.outcome(lambda i=i: ex.get_cell(m['Cell'](0, fcol, i)).value)
            ex.set_cells([m['Cell'](0, c, r, v) for (c, r), v in overrides.items()])
        for i in range(len(formulas)):
            outs.append(core.outcome(lambda i=i: ex.get_cell(m['Cell'](0, fcol, i)).value))
        return outs
    except Exception:
        pass
    for i in range(len(formulas)):
        def one(i=i):
            cls = load_class(translate(sheets, entry=(0, fcol, i)))
            ex = executor_for(cls)
            if overrides:
                ex.set_cells([m['Cell'](0, c, r, v) for (c, r), v in overrides.items()])
            return ex.get_cell(m['Cell'](0, fcol, i)).value
        outs.append(core.outcome(one))
    return outs
