"""Subprocess helper for C09: print sha256 of the translation of each given workbook (optionally after translating others first)."""
import hashlib
import sys

sys.path.insert(0, sys.argv[1])      # repository root
import warnings
warnings.filterwarnings('ignore')
from excel2pycl import Parser, Cell   # noqa

warm, paths = sys.argv[2].split(',') if sys.argv[2] else [], sys.argv[3:]
for w in warm:
    try:
        Parser().set_excel_file_path(w).get_translation()
    except Exception:
        pass
for p in paths:
    for entry in (None, ('0', 'B', '2')):
        try:
            pr = Parser().set_excel_file_path(p)
            if entry:
                pr.set_entrypoint_cell(Cell(0, 1, 1))
            print(p.rsplit('/', 1)[-1], 'entry' if entry else 'whole', hashlib.sha256(pr.get_translation().encode('utf-8')).hexdigest())
        except Exception as e:  # noqa
            print(p.rsplit('/', 1)[-1], 'entry' if entry else 'whole', 'E' + type(e).__name__)
