"""Shared machinery of the checks: paths, Lean build + axiom audit, driver process, canonical
value encoding, known findings, verdicts, evidence files.

Run under /venv/bin/python (3.12; has the repo's third-party dependencies).  The repository is
imported in-process from REPO's *working tree* on every run.
"""
from __future__ import annotations

import datetime as _dt
import fcntl
import json
import os
import random
import re
import subprocess
import sys
import time
import warnings

VERIF = os.path.dirname(os.path.dirname(os.path.abspath(__file__)))
REPO = os.environ.get('E2P_REPO', '/repo')
LEAN_DIR = os.path.join(VERIF, 'lean')
DRIVER = os.path.join(LEAN_DIR, '.lake', 'build', 'bin', 'e2pdrv')
# runs against another tree (E2P_REPO set: seeded changes, the pre-repair snapshot) never touch the committed evidence
_ALT = REPO != '/repo'
EVIDENCE_DIR = os.path.join(VERIF, 'evidence') if not _ALT else '/tmp/e2p_alt/evidence'
REPLAY_DIR = os.path.join(VERIF, 'replays') if not _ALT else '/tmp/e2p_alt/replays'
KNOWN_FINDINGS = os.path.join(VERIF, 'known_findings.txt')
GUARD = 'E2PYCL_VERIF'

ALLOWED_AXIOMS = {'propext', 'Classical.choice', 'Quot.sound'}
FORBIDDEN_RE = re.compile(r'\bsorry\b|\badmit\b|^axiom |native_decide|bv_decide|implemented_by|unsafe |maxHeartbeats 0')

TRUSTED_BASE = [
    'Lean 4.33.0 kernel (thorough tier: also leanchecker re-check of the compiled modules)',
    'axioms: propext, Classical.choice, Quot.sound only (audited by #print axioms on every run; no native_decide, no bv_decide, no sorry)',
    'Tie A extractor harness/extract.py (tables regenerated from the working tree on every run)',
    'Tie B correspondence harness + generators (impl vs Lean model, in-process, exact value encoding)',
]


def import_repo():
    """Make `import excel2pycl` resolve to REPO's working tree."""
    if REPO not in sys.path:
        sys.path.insert(0, REPO)
    os.environ.setdefault(GUARD, '1')
    warnings.filterwarnings('ignore', category=SyntaxWarning)
    import excel2pycl  # noqa
    assert os.path.abspath(excel2pycl.__file__).startswith(os.path.abspath(REPO)), excel2pycl.__file__
    return excel2pycl


# --------------------------------------------------------------------------- encoding

class Unencodable(Exception):
    pass


def enc(v) -> str:
    """Canonical token string of a Python value (see lean/E2P/Model/Proto.lean)."""
    return ' '.join(_enc(v))


def _enc(v):
    t = type(v)
    if t.__name__ == 'EmptyCell':
        return ['B']
    if v is None:
        return ['N']
    if t is bool:
        return ['T' if v else 'F']
    if t is int:
        return ['I%d' % v]
    if t is float:
        if v != v or v in (float('inf'), float('-inf')):
            raise Unencodable(repr(v))
        n, d = v.as_integer_ratio()
        return ['R%d/%d' % (n, d)]
    if t is str:
        return ['S' + '.'.join(str(ord(c)) for c in v)]
    if t is _dt.datetime:
        if v.tzinfo is not None:
            raise Unencodable(repr(v))
        us = ((v.hour * 60 + v.minute) * 60 + v.second) * 1000000 + v.microsecond
        return ['M%d.%d' % (v.toordinal(), us)]
    if t is _dt.date:
        return ['D%d' % v.toordinal()]
    if t is list:
        out = ['L%d' % len(v)]
        for x in v:
            out += _enc(x)
        return out
    if t is tuple:
        out = ['U%d' % len(v)]
        for x in v:
            out += _enc(x)
        return out
    if isinstance(v, int):  # other int subclasses
        return ['I%d' % int(v)]
    raise Unencodable(repr(v))


_EXC_MAP = {
    'E2PyclParserException': 'Parser', 'E2PyclSafetyException': 'Safety', 'E2PyclCellException': 'Cell',
    'E2PyclExecutorException': 'Executor', 'ExcelInPythonException': 'RuntimeLib', 'E2PyclException': 'Parser',
}
_FOREIGN = {'TypeError', 'ZeroDivisionError', 'ValueError', 'IndexError', 'KeyError', 'AttributeError',
            'RecursionError', 'SyntaxError', 'OverflowError'}


def exc_class(e: BaseException) -> str:
    n = type(e).__name__
    if n in _EXC_MAP:
        return _EXC_MAP[n]
    for c in type(e).__mro__:
        if c.__name__ in _EXC_MAP:
            return _EXC_MAP[c.__name__]
    if n in _FOREIGN:
        return n
    for c in type(e).__mro__:
        if c.__name__ in _FOREIGN:
            return c.__name__
    return 'Other'


def outcome(fn, *a, **k) -> str:
    """Canonical outcome of calling real code: encoded value or E<class>."""
    try:
        return enc(fn(*a, **k))
    except Unencodable:
        return 'EUnencodable'
    except RecursionError:
        return 'ERecursionError'
    except Exception as e:  # noqa
        return 'E' + exc_class(e)


def dec(s: str):
    """Decode a canonical token string back to a plain Python value (blank -> ('blank',))."""
    toks = s.split()
    v, rest = _dec(toks)
    if rest:
        raise ValueError('trailing tokens: %r' % (rest,))
    return v


BLANK = ('blank',)


def _dec(toks):
    t, rest = toks[0], toks[1:]
    tag, body = t[0], t[1:]
    if tag == 'B':
        return BLANK, rest
    if tag == 'N':
        return None, rest
    if tag == 'T':
        return True, rest
    if tag == 'F':
        return False, rest
    if tag == 'I':
        return int(body), rest
    if tag == 'R':
        n, d = body.split('/')
        return int(n) / int(d), rest
    if tag == 'S':
        return ''.join(chr(int(c)) for c in body.split('.')) if body else '', rest
    if tag == 'D':
        return _dt.date.fromordinal(int(body)), rest
    if tag == 'M':
        o, us = body.split('.')
        return _dt.datetime.fromordinal(int(o)) + _dt.timedelta(microseconds=int(us)), rest
    if tag in 'LU':
        out = []
        for _ in range(int(body)):
            x, rest = _dec(rest)
            out.append(x)
        return (out if tag == 'L' else tuple(out)), rest
    if tag == 'E':
        return ('exc', body), rest
    raise ValueError('bad token %r' % t)


# --------------------------------------------------------------------------- Lean side

def _run(cmd, cwd=None, timeout=3600, env=None):
    p = subprocess.run(cmd, cwd=cwd, stdout=subprocess.PIPE, stderr=subprocess.STDOUT, text=True,
                       timeout=timeout, env=env)
    return p.returncode, p.stdout


# which regenerated tables (harness/extract.py) the model of a property is built on: when one of them can no longer be regenerated the
# property is no longer shown to hold for the code as it is now
TIE_A = {'C02': ('grammar',), 'C05': ('grammar',), 'C06': ('grammar', 'grammar_rank'), 'C09': ('facade',), 'C11': ('runtime_consts',), 'C13': ('runtime_consts',),
         'C20': ('runtime_ast',)}


class BuildResult:
    def __init__(self):
        self.extract_ok = True
        self.extract_log = ''
        self.extract_failed = {}
        self.driver_ok = False
        self.props_ok = False
        self.log = ''
        self.obligations = []      # theorem names
        self.discharged = []       # theorem names with clean axiom audit
        self.failed = []           # (name, reason)
        self.scan_hits = []        # forbidden-token hits
        self.leanchecker = None

    @property
    def proofs_ok(self):
        return self.props_ok and not self.failed and not self.scan_hits and bool(self.obligations)


def theorem_names(lean_file):
    names = []
    ns = []
    src = open(lean_file, encoding='utf-8').read()
    src_nc = strip_lean_comments(src)
    for line in src_nc.splitlines():
        m = re.match(r'\s*namespace\s+(\S+)', line)
        if m:
            ns.append(m.group(1))
            continue
        m = re.match(r'\s*end\s+(\S+)', line)
        if m and ns and ns[-1] == m.group(1):
            ns.pop()
            continue
        m = re.match(r'\s*(?:@\[[^\]]*\]\s*)?(?:protected\s+|private\s+)?theorem\s+([^\s:({\[]+)', line)
        if m:
            names.append('.'.join(ns + [m.group(1)]))
    return names


def strip_lean_comments(src: str) -> str:
    out = []
    i, n, depth = 0, len(src), 0
    while i < n:
        if src.startswith('/-', i):
            depth += 1
            i += 2
            continue
        if depth and src.startswith('-/', i):
            depth -= 1
            i += 2
            continue
        if depth:
            if src[i] == '\n':
                out.append('\n')
            i += 1
            continue
        if src.startswith('--', i):
            while i < n and src[i] != '\n':
                i += 1
            continue
        out.append(src[i])
        i += 1
    return ''.join(out)


def import_closure(roots):
    """Lean source files of this package reachable through `import E2P...` from the given module names."""
    seen, todo = {}, list(roots)
    while todo:
        m = todo.pop()
        if m in seen:
            continue
        path = os.path.join(LEAN_DIR, *m.split('.')) + '.lean'
        if not os.path.exists(path):
            continue
        seen[m] = path
        for line in strip_lean_comments(open(path, encoding='utf-8').read()).splitlines():
            mm = re.match(r'\s*import\s+(E2P(?:\.\w+)*|Driver)\s*$', line)
            if mm:
                todo.append(mm.group(1))
    return seen


def scan_forbidden(roots):
    """Text scan (comments stripped) of every package file the given modules depend on."""
    hits = []
    for m, p in sorted(import_closure(roots).items()):
        src = strip_lean_comments(open(p, encoding='utf-8').read())
        for ln, line in enumerate(src.splitlines(), 1):
            if '/Generated/' in p and line.lstrip().startswith('"'):
                continue    # string literals of generated tables may contain anything
            if FORBIDDEN_RE.search(line):
                hits.append('%s:%d: %s' % (os.path.relpath(p, VERIF), ln, line.strip()[:120]))
    return hits


def lean_build(prop_modules, tier='quick', want_driver=True) -> BuildResult:
    """Extract tables from the working tree, build the driver and the property modules,
    audit the axioms of every theorem in them."""
    from . import extract
    res = BuildResult()
    os.makedirs(os.path.join(LEAN_DIR, '.lake'), exist_ok=True)
    lock = open(os.path.join(LEAN_DIR, '.lake', 'verif.lock'), 'w')
    fcntl.flock(lock, fcntl.LOCK_EX)
    try:
        try:
            res.extract_failed = extract.run()
        except Exception as e:  # the repository does not even import
            res.extract_failed = {'*': '%s: %s' % (type(e).__name__, e)}
        res.extract_ok = not res.extract_failed
        res.extract_log = json.dumps(res.extract_failed)
        if want_driver:
            rc, out = _run(['lake', 'build', 'e2pdrv'], cwd=LEAN_DIR)
            res.driver_ok = rc == 0
            res.log += out
        mods = ['E2P.Props.%s' % m for m in prop_modules]
        rc, out = _run(['lake', 'build'] + mods, cwd=LEAN_DIR)
        res.props_ok = rc == 0
        res.log += out
        for m in prop_modules:
            res.obligations += theorem_names(os.path.join(LEAN_DIR, 'E2P', 'Props', m + '.lean'))
        res.scan_hits = scan_forbidden(mods + ['Driver'])
        if res.props_ok:
            audit = os.path.join(LEAN_DIR, '.lake', 'audit_%s_%d.lean' % ('_'.join(prop_modules), os.getpid()))
            with open(audit, 'w') as f:
                for m in mods:
                    f.write('import %s\n' % m)
                for t in res.obligations:
                    f.write('#print axioms %s\n' % t)
            rc, out = _run(['lake', 'env', 'lean', audit], cwd=LEAN_DIR)
            os.remove(audit)
            seen = {}
            for m in re.finditer(r"'([^']+)' (depends on axioms: \[([^\]]*)\]|does not depend on any axioms)", out):
                axs = set(a.strip() for a in (m.group(3) or '').replace('\n', ' ').split(',') if a.strip())
                seen[m.group(1)] = axs
            for t in res.obligations:
                if t not in seen:
                    res.failed.append((t, 'no axiom report (audit output: %s)' % out.strip()[-300:]))
                elif not seen[t] <= ALLOWED_AXIOMS:
                    res.failed.append((t, 'axioms %s' % sorted(seen[t] - ALLOWED_AXIOMS)))
                else:
                    res.discharged.append(t)
            if tier == 'thorough':
                rc, out = _run(['lake', 'env', 'leanchecker'] + mods, cwd=LEAN_DIR, timeout=3600)
                res.leanchecker = (rc == 0)
                if rc != 0:
                    res.failed.append(('leanchecker', out.strip()[-500:]))
        else:
            errs = re.findall(r'error: ([^\n]*)', res.log)
            for t in res.obligations:
                res.failed.append((t, 'module failed to build'))
            res.build_errors = errs[:20]
    finally:
        fcntl.flock(lock, fcntl.LOCK_UN)
        lock.close()
    return res


def drive(lines, timeout=3600):
    """Send request lines to the Lean driver; return the list of response lines."""
    if not lines:
        return []
    p = subprocess.run([DRIVER], input='\n'.join(lines) + '\n', stdout=subprocess.PIPE, stderr=subprocess.PIPE,
                       text=True, timeout=timeout)
    if p.returncode != 0:
        raise RuntimeError('driver failed: %s' % p.stderr[-500:])
    out = p.stdout.split('\n')
    if out and out[-1] == '':
        out.pop()
    if len(out) != len(lines):
        raise RuntimeError('driver returned %d lines for %d requests' % (len(out), len(lines)))
    return out


def split3(resp: str):
    parts = [x.strip() for x in resp.split('|')]
    while len(parts) < 3:
        parts.append('')
    return parts[0], parts[1], parts[2]


# --------------------------------------------------------------------------- findings / verdicts

def load_known_findings(prop):
    out = []
    if not os.path.exists(KNOWN_FINDINGS):
        return out
    for line in open(KNOWN_FINDINGS, encoding='utf-8'):
        line = line.strip()
        if not line or line.startswith('#'):
            continue
        m = re.match(r'open: property=(\S+) finding=(\S+) class=(\S+) (.*)$', line)
        if m and m.group(1) == prop:
            out.append({'slug': m.group(2), 'cls': m.group(3), 'what': m.group(4)})
    return out


class Check:
    """One run of one property's check: collects coverage, violations, findings; writes evidence."""

    def __init__(self, prop, tier, seed, level='proof'):
        self.prop, self.tier, self.seed, self.level = prop, tier, seed, level
        self.t0 = time.time()
        self.rng = random.Random('%s/%s' % (prop, seed))
        self.violations = []          # dicts
        self.known_hits = {}          # slug -> count
        self.known = {k['cls']: k for k in load_known_findings(prop)}
        self.mismatches = []          # correspondence mismatches (impl != model) without property failure
        self.evaluations = 0
        self.distinct = set()
        self.branches = {}
        self.samples = []
        self.info = {}
        self.assumptions = []
        self.build = None
        self.rule = ''
        self.exhaustive = False
        self.no_failing_input = []    # names of theorems / correspondence streams that no longer check

    # --- bookkeeping
    def count(self, branch, n=1):
        self.branches[branch] = self.branches.get(branch, 0) + n

    def seen(self, key, nontrivial=True):
        self.evaluations += 1
        if nontrivial:
            self.distinct.add(key)

    def sample(self, obj, cap=12):
        if len(self.samples) < cap:
            self.samples.append(obj)

    def violation(self, case, classes=''):
        """Register a property failure on the real code unless it falls in a known-finding class."""
        for c in classes.split(',') if classes else []:
            c = c.strip()
            if c and c in self.known:
                self.known_hits[c] = self.known_hits.get(c, 0) + 1
                return False
        self.violations.append(case)
        return True

    @staticmethod
    def _spread(items, cap):
        """keep at most `cap` items, round-robin over (stream, fn, why) so that every kind of failure is represented"""
        groups = {}
        for it in items:
            groups.setdefault((it.get('stream'), it.get('fn'), it.get('why')), []).append(it)
        out, i = [], 0
        while len(out) < cap and any(groups.values()):
            for k in list(groups):
                if groups[k]:
                    out.append(groups[k].pop(0))
                    if len(out) >= cap:
                        break
        return out

    def mismatch(self, stream, case):
        self.mismatches.append({'stream': stream, 'case': case})

    def judge(self, stream, cases, sample_cap=3, canon=None):
        """cases: list of (request_line, impl_outcome, meta dict).  Sends the requests to the Lean driver and
        applies the verdict table: impl vs spec (property), impl vs model (correspondence)."""
        if not cases:
            return
        resp = drive([c[0] for c in cases])
        ns = 0
        for (req, got, meta), line in zip(cases, resp):
            model, spec, cls = split3(line)
            self.count('stream:' + stream)
            self.seen((stream, req))
            case = dict(meta, stream=stream, request=req, impl=got, model=model, spec=spec)
            if spec != '-':
                self.count('stream:%s:judged-by-spec' % stream)
            if model == 'EUnmodelled':
                self.count('stream:%s:outside-model' % stream)
            if model == 'bad-op':
                raise RuntimeError('driver rejected request %r' % req)
            if spec != '-' and (canon(got) if canon else got) != spec:
                self.violation(dict(case, why='real code differs from what the property demands'), cls)
            elif model != 'EUnmodelled' and got != model:
                self.mismatch(stream, case)
            for flag in cls.split(','):
                if flag.strip().endswith('-bad'):      # a modelled external disagrees with the value the real library produced
                    self.mismatch('external:' + flag.strip(), case)
            if ns < sample_cap and spec != '-':
                self.sample(case, cap=40)
                ns += 1

    # --- finish
    def finish(self):
        os.makedirs(EVIDENCE_DIR, exist_ok=True)
        os.makedirs(REPLAY_DIR, exist_ok=True)
        b = self.build
        lines = []
        exit_code = 0
        for cls, n in sorted(self.known_hits.items()):
            k = self.known[cls]
            lines.append('KNOWN-FINDING: property=%s %s [class %s, %d case(s) this run]' % (self.prop, k['what'], cls, n))
        if self.violations:
            path = os.path.join(REPLAY_DIR, '%s-%s-seed%s.json' % (self.prop, self.tier, self.seed))
            json.dump({'property': self.prop, 'seed': self.seed, 'tier': self.tier,
                       'failing_inputs': self._spread(self.violations, 60), 'total': len(self.violations),
                       'failed_obligations': (b.failed if b else []),
                       'correspondence_mismatches': self.mismatches[:20]},
                      open(path, 'w'), indent=1, default=str, ensure_ascii=False)
            lines.append('VIOLATION property=%s replay=%s' % (self.prop, path))
            exit_code = 1
        else:
            broken = []
            if b is not None and not b.proofs_ok:
                broken += ['theorem:%s (%s)' % (n, r) for n, r in b.failed] or ['lean build failed']
                broken += ['forbidden:%s' % h for h in b.scan_hits]
            if self.mismatches:
                streams = sorted(set(m['stream'] for m in self.mismatches))
                broken += ['correspondence:%s' % s for s in streams]
            if b is not None:
                for name, err in sorted(b.extract_failed.items()):
                    if name == '*' or name in TIE_A.get(self.prop, ()):
                        broken.append('tie-A: the table of extractor %s can no longer be regenerated from the source (%s)' % (name, err))
            if broken:
                path = os.path.join(REPLAY_DIR, '%s-%s-seed%s.json' % (self.prop, self.tier, self.seed))
                json.dump({'property': self.prop, 'seed': self.seed, 'tier': self.tier,
                           'no_failing_input_found': True, 'no_longer_checks': broken,
                           'build_errors': getattr(b, 'build_errors', []) if b else [],
                           'correspondence_mismatches': self.mismatches[:50]},
                          open(path, 'w'), indent=1, default=str, ensure_ascii=False)
                lines.append('VIOLATION property=%s replay=%s no-failing-input-found' % (self.prop, path))
                exit_code = 1
        cov = {
            'obligations': len(b.obligations) if b else 0,
            'discharged': len(b.discharged) if b else 0,
            'checker_cmd': 'cd lean && lake build E2P.Props.%s && lake env lean <audit file with #print axioms per theorem>%s'
                           % (self.prop, ' && lake env leanchecker E2P.Props.%s' % self.prop if self.tier == 'thorough' else ''),
            'trusted_base': TRUSTED_BASE + self.assumptions,
            'theorems': b.obligations if b else [],
            'failed_obligations': [list(x) for x in (b.failed if b else [])],
            'evaluations': self.evaluations,
            'distinct_nontrivial': len(self.distinct),
            'rule': self.rule,
            'samples': self.samples or ['(none)'],
            'branches': self.branches,
            'correspondence_mismatches': len(self.mismatches),
            'known_finding_hits': self.known_hits,
            'exhaustive': self.exhaustive,
        }
        cov.update(self.info)
        ev = {
            'property_id': self.prop, 'tier': self.tier, 'seed': int(self.seed), 'level': self.level,
            'coverage': cov, 'assumptions': self.assumptions,
            'wall_s': round(time.time() - self.t0, 2), 'violations': len(self.violations),
        }
        json.dump(ev, open(os.path.join(EVIDENCE_DIR, '%s.json' % self.prop), 'w'), indent=1, default=str,
                  ensure_ascii=False)
        for l in lines:
            print(l)
        print('%s %s seed=%s: obligations %d/%d, %d evaluations (%d distinct), %d violations, %d mismatches, %.1fs'
              % (self.prop, self.tier, self.seed, cov['discharged'], cov['obligations'], self.evaluations,
                 len(self.distinct), len(self.violations), len(self.mismatches), time.time() - self.t0))
        return exit_code
